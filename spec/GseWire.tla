------------------------------ MODULE GseWire ------------------------------
(***************************************************************************)
(* Packet layout of ETSI TS 102 606 read independently of the code:        *)
(*   fixed header | [frag id] | [total length] | ptype / first ext id |    *)
(*   label | extension chain | payload | [CRC-32]                          *)
(* and the extension-header chain (RFC 5163 H-LEN table).                  *)
(* Parse works on a *delimited* packet: a byte sequence whose length is    *)
(* GSE-Length + 2.  Serves C05 C06 C10 C13 C19 C20 and the receiver spec.  *)
(***************************************************************************)
EXTENDS GseHeader, GseCrc

\* ---------------------------------------------------------------- extensions
OptionalDataLen(id) == 2 * ((id \div 256) - 1)     \* H-LEN 1..5 -> 0,2,4,6,8
IsMandatoryId(id)   == id < 256
IsOptionalId(id)    == id >= 256 /\ id < 1536
IsPtype(id)         == id >= 1536

\* Extension constructor contract (C13): Ok iff id < 0x600 and, for optional
\* ids, the data length matches the H-LEN table.
ExtNewOk(id, dlen) == id < 1536 /\ (id < 256 \/ dlen = OptionalDataLen(id))

\* total on-wire size of an extension (id + data)
ExtLen(e) == 2 + Len(e.data)

\* A manager is a function: known mandatory id -> [final |-> BOOLEAN, size |-> Nat]
NoMgr == [i \in {} |-> [final |-> TRUE, size |-> 0]]

WalkRes(ok, why, exts, ptype, next) ==
  [ok |-> ok, why |-> why, exts |-> exts, ptype |-> ptype, next |-> next]

\* Walk an extension chain.  `id` is the current type field, whose data (if it
\* is an extension) starts at b[off]; `lim` is the last index of the packet.
\* Result: the ordered extension list, the final protocol type and the index
\* of the first payload byte.
RECURSIVE ExtWalkR(_, _, _, _, _, _)
ExtWalkR(b, off, id, mgr, lim, acc) ==
  IF IsPtype(id) THEN WalkRes(TRUE, "ok", acc, id, off)
  ELSE IF IsMandatoryId(id) /\ id \notin DOMAIN mgr
       THEN WalkRes(FALSE, "unknown_mandatory", acc, id, off)
  ELSE LET sz == IF IsMandatoryId(id) THEN mgr[id].size ELSE OptionalDataLen(id)
           fin == IsMandatoryId(id) /\ mgr[id].final
       IN IF off + sz - 1 > lim THEN WalkRes(FALSE, "ext_truncated", acc, id, off)
          ELSE With(Append(acc, [id |-> id, data |-> SubSeq(b, off, off + sz - 1)]), LAMBDA acc2 :
                  IF fin THEN WalkRes(TRUE, "ok", acc2, id, off + sz)
                  ELSE IF off + sz + 1 > lim
                       THEN WalkRes(FALSE, "ext_truncated", acc2, id, off + sz)
                       ELSE ExtWalkR(b, off + sz + 2, U16(b, off + sz), mgr, lim, acc2))

ExtWalk(b, off, firstId, mgr, lim) == ExtWalkR(b, off, firstId, mgr, lim, <<>>)

\* Serialise a chain after the label: data of e1, id of e2, data of e2, ...,
\* then the protocol type unless the last extension is a final mandatory one
\* (which stands for the protocol type).  The id of e1 sits in the type field.
RECURSIVE ExtChainTail(_, _)
ExtChainTail(exts, i) ==
  IF i > Len(exts) THEN <<>>
  ELSE exts[i].data \o (IF i < Len(exts) THEN BE16(exts[i + 1].id) ELSE <<>>) \o ExtChainTail(exts, i + 1)

ExtChainBytes(exts, ptype, lastIsFinal) ==
  ExtChainTail(exts, 1) \o (IF lastIsFinal THEN <<>> ELSE BE16(ptype))

\* -------------------------------------------------------------------- parse
PRes(ok, why, h, fragId, tl, pt0, ptype, label, exts, poff, plen, crc) ==
  [ ok |-> ok, why |-> why, kind |-> h.kind, lt |-> h.lt, gseLen |-> h.len,
    fragId |-> fragId, tl |-> tl, ptype0 |-> pt0, ptype |-> ptype,
    label |-> label, exts |-> exts, poff |-> poff, plen |-> plen, crc |-> crc ]

ZeroCrc == <<0, 0>>
PBad(h, why) == PRes(FALSE, why, h, 0, 0, 0, 0, <<>>, <<>>, 1, 0, ZeroCrc)

\* p: delimited packet (Len(p) = gse_len + 2, header not padding).
\* ok  = every announced field lies inside the packet and the chain ends inside it.
\* why = "ok" | "short" (fields do not fit GSE-Length) | "ext_truncated" |
\*       "unknown_mandatory" | "empty_inter"
ParseStart(p, mgr, h, base) ==   \* base: index of the type field (3 complete, 6 first)
  LET n   == Len(p)
      ll  == LtLen(h.lt)
      fid == IF base = 6 THEN p[3] ELSE 0
      tl  == IF base = 6 THEN U16(p, 4) ELSE 0
      pt0 == U16(p, base)
      lab == SubSeq(p, base + 2, base + 1 + ll)
  IN  With(ExtWalk(p, base + 2 + ll, pt0, mgr, n), LAMBDA w :
        IF ~w.ok THEN PRes(FALSE, w.why, h, fid, tl, pt0, w.ptype, lab, w.exts, 1, 0, ZeroCrc)
        ELSE PRes(TRUE, "ok", h, fid, tl, pt0, w.ptype, lab, w.exts, w.next, n - w.next + 1, ZeroCrc))

ParseH(p, mgr, h) ==
  LET n == Len(p) IN
  IF h.kind = "complete" THEN
     IF h.len < PtypeLen + LtLen(h.lt) THEN PBad(h, "short") ELSE ParseStart(p, mgr, h, 3)
  ELSE IF h.kind = "first" THEN
     IF h.len < FragIdLen + TotalLenLen + PtypeLen + LtLen(h.lt) THEN PBad(h, "short") ELSE ParseStart(p, mgr, h, 6)
  ELSE IF h.kind = "inter" THEN
     IF h.len < FragIdLen THEN PBad(h, "short")
     ELSE IF h.len = FragIdLen THEN PRes(FALSE, "empty_inter", h, p[3], 0, 0, 0, <<>>, <<>>, 4, 0, ZeroCrc)
     ELSE PRes(TRUE, "ok", h, p[3], 0, 0, 0, <<>>, <<>>, 4, n - 3, ZeroCrc)
  ELSE \* end
     IF h.len < FragIdLen + CrcLen THEN PBad(h, "short")
     ELSE PRes(TRUE, "ok", h, p[3], 0, 0, 0, <<>>, <<>>, 4, n - 3 - CrcLen,
               CrcOfBytes(SubSeq(p, n - 3, n)))

Parse(p, mgr) == With(HdrDecode(U16(p, 1)), LAMBDA h : ParseH(p, mgr, h))

Payload(p, w) == SubSeq(p, w.poff, w.poff + w.plen - 1)

\* ---------------------------------------------------------------- serialise
\* desc: [kind, lt, fragId, tl, ptype0 (type field), label (bytes), chain (bytes
\* between label and payload), payload (bytes), crc (<<hi,lo>>)]
BodyBytes(d) ==
  CASE d.kind = "complete" -> BE16(d.ptype0) \o d.label \o d.chain \o d.payload
    [] d.kind = "first"    -> <<d.fragId>> \o BE16(d.tl) \o BE16(d.ptype0) \o d.label \o d.chain \o d.payload
    [] d.kind = "inter"    -> <<d.fragId>> \o d.payload
    [] OTHER               -> <<d.fragId>> \o d.payload \o CrcBytes(d.crc)

SerializePkt(d) ==
  LET body == BodyBytes(d) IN BE16(HdrEncode(d.kind, d.lt, Len(body))) \o body

\* -------------------------------------------------------- classify raw bytes
\* Total classification of an arbitrary byte string as seen by a receiver
\* (C05): "short" (< 2 bytes) | "pad" | "trunc" (announced length exceeds the
\* buffer) | "delim" (a delimited packet of length gse_len + 2 is present).
Classify(b) ==
  IF Len(b) < 2 THEN "short"
  ELSE IF IsPaddingWord(U16(b, 1)) THEN "pad"
  ELSE IF Len(b) < (U16(b, 1) % 4096) + 2 THEN "trunc"
  ELSE "delim"

Delimited(b) == SubSeq(b, 1, (U16(b, 1) % 4096) + 2)

AllZero(b) == \A i \in 1..Len(b) : b[i] = 0

\* ------------------------------------------------------------------- peek
\* What the label / fragment-id peek must answer for a delimited well-formed
\* packet (C19): frag id for inter/end; label for start/complete with a 6-, 3-
\* byte or broadcast label; the re-use error otherwise.
PeekExpect(w) ==
  IF w.kind \in {"inter", "end"} THEN [t |-> "fragid", id |-> w.fragId, lt |-> "ru", b |-> <<>>]
  ELSE IF w.lt = "ru" THEN [t |-> "reuse", id |-> 0, lt |-> "ru", b |-> <<>>]
  ELSE [t |-> "label", id |-> 0, lt |-> w.lt, b |-> w.label]
=============================================================================
