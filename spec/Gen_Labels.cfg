SPECIFICATION Spec
CONSTANTS
  GseLenMax = 4095
  TotalLenMax = 65535
  Maxes = {0, 1, 2}
  OutOfStep = FALSE
  Export = TRUE
  Depth = 3
CONSTRAINT Bounded
INVARIANTS ExportInv
CHECK_DEADLOCK FALSE
