SPECIFICATION Spec
CONSTANTS
  GseLenMax = 4095
  TotalLenMax = 65535
  Maxes = {0, 1, 2}
  Export = TRUE
  Depth = 3
CONSTRAINT Bounded
INVARIANTS ExportInv
CHECK_DEADLOCK FALSE
