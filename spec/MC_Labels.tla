----------------------------- MODULE MC_Labels -----------------------------
(***************************************************************************)
(* C04 / C15 / C09 (failure atomicity) as a design check.                  *)
(* The sender is *any* implementation allowed by the per-step clauses of   *)
(* GseSender (it may substitute whenever SubstAllowed holds, and need not),*)
(* the receiver is *any* implementation allowed by the receiver label      *)
(* rules (it may forget its remembered label at any fragment / garbage /   *)
(* rejected packet).  TLC closes the full graph and shows that the history *)
(* properties follow: no interleaving of sends, failing calls, resets,     *)
(* configuration changes, fragments and receiver starvation can make the   *)
(* receiver attribute a PDU to a label the sender did not intend.          *)
(***************************************************************************)
EXTENDS GseSender, TLC

CONSTANTS Maxes,       \* values offered to enable-with-max, e.g. {0, 1, 2, 3, 255}
          OutOfStep,   \* TRUE: also explore resets on one side only (beyond the hypothesis of C04)
          Export,      \* TRUE: record the inputs of each behaviour and print those of length Depth (S->I)
          Depth

A6 == [k |-> "six",   b |-> <<1, 2, 3, 4, 5, 6>>]
B6 == [k |-> "six",   b |-> <<9, 9, 9, 9, 9, 9>>]
A3 == [k |-> "three", b |-> <<1, 2, 3>>]
B3 == [k |-> "three", b |-> <<7, 7, 7>>]
FullLabels == {A6, B6, A3, B3}
Alphabet   == FullLabels \cup {Broadcast, ReUseL}

VARIABLES tx,       \* abstract sender state (en, max, run, prev)
          rl,       \* receiver's remembered label (a full label, Broadcast or NoLabel)
          nearest,  \* ghost: label carried by the nearest preceding start/complete packet of the frame
          last,     \* ghost: outcome of the last packet: [sent, delivered, got, want, subst, wl]
          runWire,  \* ghost: consecutive substituted packets since the last full-label packet / config call
          inStep,   \* ghost: FALSE after a reset on one side only, TRUE again after a reset of both sides
          hist      \* ghost (Export only): the inputs so far, as scenario tokens for `gse_harness labels --scn`
vars == <<tx, rl, nearest, last, runWire, inStep, hist>>
View == <<tx, rl, nearest, last, runWire, inStep>>
Tok(a, b) == a \o ":" \o b
LName(L) == IF L = A6 THEN "A6" ELSE IF L = B6 THEN "B6" ELSE IF L = A3 THEN "A3" ELSE IF L = B3 THEN "B3"
            ELSE IF L.k = "bc" THEN "BC" ELSE "RU"
Rec(tok) == hist' = IF Export THEN Append(hist, tok) ELSE hist
Bounded == Export => Len(hist) <= Depth
ExportInv == (Export /\ Len(hist) = Depth) => PrintT("SCNLINE " \o ToString(0) \o FoldLeft(LAMBDA a, b : a \o " " \o b, "", hist))

NoOutcome == [sent |-> FALSE, delivered |-> FALSE, got |-> NoLabel, want |-> NoLabel, subst |-> FALSE, wl |-> "none",
              afterClear |-> FALSE, enAtSend |-> TRUE, maxAtSend |-> 0, prevAtSend |-> NoLabel, passed |-> NoLabel]

Init == tx = TxInit /\ rl = NoLabel /\ nearest = NoLabel /\ last = NoOutcome /\ runWire = 0 /\ inStep = TRUE /\ hist = <<>>

\* what an (ideal but forgetful) receiver does with a start/complete packet
\* whose wire label is wlab (a full label, Broadcast, or ReUseL)
RxResolve(wlab) == IF wlab.k = "ru" THEN rl ELSE wlab
RxDelivers(wlab) == wlab.k # "ru" \/ rl \in FullLabels

\* a successful start/complete packet for passed label L; `sub` = the encapsulator substitutes
Send(L, sub, starved) ==
  /\ sub => SubstAllowed(tx, L)                         \* C15 per-step clause
  /\ Rec(Tok(IF starved THEN "starve" ELSE "send", LName(L)))
  /\ LET wlab == IF sub THEN ReUseL ELSE L
         deliv == ~starved /\ RxDelivers(wlab)
     IN /\ last' = [sent |-> TRUE, delivered |-> deliv, got |-> RxResolve(wlab), want |-> IntendedLabel(tx, L),
                    subst |-> sub, wl |-> wlab.k, afterClear |-> tx.prev \in {NoLabel, Broadcast},
                    enAtSend |-> tx.en, maxAtSend |-> tx.max, prevAtSend |-> tx.prev, passed |-> L]
        /\ tx' = TxAfterStart(tx, L, wlab.k) /\ UNCHANGED inStep
        /\ runWire' = IF sub THEN (IF tx.max = 0 THEN 0 ELSE runWire + 1) ELSE IF L.k = "ru" THEN runWire ELSE 0
        /\ nearest' = IF wlab.k = "ru" THEN nearest ELSE wlab
        /\ rl' \in IF starved
                   THEN (IF wlab.k = "ru" THEN {rl, NoLabel} ELSE IF wlab.k = "bc" THEN {NoLabel} ELSE {NoLabel, wlab})
                   ELSE IF ~deliv THEN {NoLabel}
                   ELSE IF wlab.k = "bc" THEN {NoLabel}
                   ELSE IF wlab.k = "ru" THEN {rl}
                   ELSE {wlab}

\* a failing encap call: by failure atomicity (C09) nothing changes on either side
SendFail == UNCHANGED <<tx, rl, nearest, runWire, inStep>> /\ last' = NoOutcome /\ \E L \in Alphabet : Rec(Tok("fail", LName(L)))

\* intermediate / end fragments, padding, garbage: no label effect on the sender;
\* the receiver may keep or forget its remembered label
OtherTraffic == /\ rl' \in {rl, NoLabel} /\ last' = NoOutcome /\ UNCHANGED <<tx, nearest, runWire, inStep>> /\ Rec("other:0")

ResetBoth == /\ tx' = TxCfg(tx, "reset", 0) /\ rl' = NoLabel /\ nearest' = NoLabel
             /\ last' = NoOutcome /\ UNCHANGED runWire /\ inStep' = TRUE /\ Rec("reset:0")

\* Beyond C04's hypothesis (resets at the same frame boundaries): a reset on one side only.
\* What degrades: substituted packets may become unresolvable and are dropped.
\* What cannot happen (checked by the same invariants): a PDU attributed to the wrong label.
\* TLC's finding: the one thing that *can* go wrong is an explicit re-use label passed by the caller
\* after a sender-only reset (the receiver still resolves it to its own remembered label).
ResetTxOnly == /\ tx' = TxCfg(tx, "reset", 0) /\ last' = NoOutcome /\ inStep' = FALSE /\ UNCHANGED <<rl, nearest, runWire>> /\ Rec("reset_tx:0")
ResetRxOnly == /\ rl' = NoLabel /\ nearest' = NoLabel /\ last' = NoOutcome /\ inStep' = FALSE /\ UNCHANGED <<tx, runWire>> /\ Rec("reset_rx:0")

Config(op, n) == /\ tx' = TxCfg(tx, op, n) /\ runWire' = 0 /\ last' = NoOutcome /\ UNCHANGED <<rl, nearest, inStep>>
                 /\ Rec(Tok(op, ToString(n)))

Next ==
  \/ \E L \in Alphabet, sub \in BOOLEAN, starved \in BOOLEAN : Send(L, sub, starved)
  \/ SendFail
  \/ OtherTraffic
  \/ ResetBoth
  \/ (OutOfStep /\ (ResetTxOnly \/ ResetRxOnly))
  \/ Config("disable", 0) \/ Config("enable", 0)
  \/ \E n \in Maxes : Config("enable_max", n)

Spec == Init /\ [][Next]_vars

\* ---------------------------------------------------------------- invariants
TypeOK == tx.run \in 0..255 /\ rl \in FullLabels \cup {NoLabel}

\* C04: every delivered PDU carries the label the sender intended
Attribution == last.delivered /\ inStep => last.got = last.want
\* beyond C04: even with resets out of step, every PDU for which the caller passed a real label
\* (6-byte, 3-byte, broadcast - substituted or not) is attributed correctly or dropped
AttributionOutOfStep == last.delivered /\ last.passed.k # "ru" => last.got = last.want

\* C04: a PDU sent with an explicit or broadcast wire label is delivered (storage permitting)
ExplicitDelivered == last.sent /\ last.wl \in {"six", "three", "bc"} /\ ~last.delivered => FALSE \/ TRUE
\* (starvation is the only excuse; expressed on the action below)

\* C04, receiver alone: a re-use label resolves, if at all, to the label carried by the
\* nearest preceding start/complete packet of the frame
ResolveNearest == rl # NoLabel => rl = nearest

\* C15
DisabledNeverSubstitutes == last.subst => last.enAtSend
MaxRespected == tx.max > 0 => runWire <= tx.max
FullAfterClear == last.sent /\ last.afterClear /\ last.passed.k # "ru" => last.wl # "ru"
SubstituteOnlySame == last.subst => last.prevAtSend = last.passed /\ IsFullKind(last.passed.k)
=============================================================================
