SPECIFICATION Spec
CONSTANTS
  Slots = 2
  Cap = 2
  Size = 16
  Ids = {0, 1, 2}
  MaxBuf = 3
  Depth = 4
  Export = FALSE
CONSTRAINT Bounded
VIEW View
INVARIANTS Conservation TakeReturnsLastSaved
PROPERTY StepAlways
CHECK_DEADLOCK FALSE
