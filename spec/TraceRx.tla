------------------------------ MODULE TraceRx ------------------------------
EXTENDS Integers, FiniteSets, Sequences, TLC, Json, IOUtils, GseSender

Rec  == ndJsonDeserialize(IOEnv.TRACE)
Pdus == ndJsonDeserialize(IOEnv.PDUS)
PduBytes(i) == Pdus[i].bytes
PduLen(i)   == Pdus[i].len

V(cond, props, name) == IF cond THEN {} ELSE {[props |-> props, c |-> name]}
H(cond, name) == IF cond THEN {name} ELSE {}

RxInit == [x |-> 0]
RxBegin(e) == RxInit
RxAfterTx(rx, e) == rx
RxCrcFor(e, rx, tab) == [need |-> FALSE, key |-> <<>>, val |-> ZeroCrc, new |-> FALSE]
RxStep(e, rx, tx, crc) == [bad |-> {}, hits |-> {}, cls |-> <<"other", e.ev>>, rx |-> rx]
=============================================================================
