------------------------------ MODULE TraceRx ------------------------------
(***************************************************************************)
(* Receiver half of the trace specification: decap / peek / provision /    *)
(* reset / drain events judged against the receiver relations.             *)
(*                                                                         *)
(* Abstract receiver state tracked from the trace:                         *)
(*  adm   : set of values the remembered label may have according to the   *)
(*          property text (subset construction; NoLabel = "cannot resolve")*)
(*  mem   : the last projection of the real memory (free tags, contexts)   *)
(*  prov  : buffer tags (= unique lengths) ever handed to the decapsulator *)
(*  owned : tags currently in the caller's hands                           *)
(*  ghost : per fragment id, the C03 ghost: most recent first fragment     *)
(*          answered "fragmented" and the payloads arrived since           *)
(*  lock / pend / sess : lock-step with the sender (C01 C02 C04)           *)
(***************************************************************************)
EXTENDS TraceBase

MgrOf(list) ==
  [id \in {list[i].id : i \in 1..Len(list)} |->
     LET i == CHOOSE j \in 1..Len(list) : list[j].id = id
     IN  [final |-> list[i].final, size |-> list[i].size]]

EmptyMem == [ok |-> TRUE, free |-> <<>>, ctxs |-> <<>>]
NoFirst  == [label |-> NoLabel, lt |-> "ru", lb |-> <<>>, ptype |-> 0, tl |-> 0, exts |-> <<>>]
NoGhost  == [open |-> FALSE, done |-> FALSE, first |-> NoFirst, arrived |-> <<>>]
NoPend   == [valid |-> FALSE, wire |-> <<>>, kind |-> "none", id |-> 0, pdu |-> 0,
             intended |-> NoLabel, ptype |-> 0, exts |-> <<>>]
NoSess   == [pdu |-> 0, intended |-> NoLabel, ptype |-> 0, exts |-> <<>>]

RxInit ==
  [ mgr |-> NoMgr, slots |-> 0, adm |-> {NoLabel}, mem |-> EmptyMem, prov |-> {}, owned |-> {},
    ghost |-> [i \in {} |-> NoGhost], lock |-> FALSE, pend |-> NoPend, sess |-> [i \in {} |-> NoSess],
    \* user-supplied CRC calculators (driver custcrc): the receiver's / the sender's calculator returns the
    \* complement of the standard CRC
    inv |-> FALSE, txinv |-> FALSE,
    \* C19: the last peek on a packet produced by the encapsulator, compared with what decap then does with it
    peek |-> [valid |-> FALSE, bytes |-> <<>>, res |-> [t |-> "none"]] ]

RxBegin(e) ==
  [ RxInit EXCEPT !.mgr = IF Has(e, "rx") THEN MgrOf(e.rx.mgr) ELSE NoMgr,
                  !.slots = IF Has(e, "rx") THEN e.rx.slots ELSE 0,
                  !.lock = Has(e, "lock") /\ e.lock,
                  !.inv = Has(e, "rxinv") /\ e.rxinv, !.txinv = Has(e, "txinv") /\ e.txinv ]

\* ------------------------------------------------------- memory projection
CtxIdx(m, id) == {i \in 1..Len(m.ctxs) : m.ctxs[i].id = id}
HasCtx(m, id) == CtxIdx(m, id) # {}
CtxOf(m, id)  == m.ctxs[CHOOSE i \in CtxIdx(m, id) : TRUE]
CountSeq(s, x) == Cardinality({i \in 1..Len(s) : s[i] = x})

\* C08: every provisioned buffer is in exactly one place
\* (a memory that fails a call may keep the buffer it was handed - "stash": still the memory's, a place of its own)
StashOf(m) == IF Has(m, "stash") THEN m.stash ELSE <<>>
Conserved(m, prov, owned) ==
  \A t \in prov :
     CountSeq(m.free, t) + Cardinality({i \in 1..Len(m.ctxs) : m.ctxs[i].tag = t})
       + CountSeq(StashOf(m), t) + (IF t \in owned THEN 1 ELSE 0) = 1

\* buffers taken from / given to the memory during one call, from the memops log (C08 give-back)
OpsTaken(ops) == {i \in 1..Len(ops) : ops[i].op \in {"new_pdu", "new_frag", "take_frag"} /\ ops[i].res = "ok"}
\* save_frag takes ownership of the buffer whatever it answers; so does a provision that answers MemoryCorrupted
OpsGiven(ops) == {i \in 1..Len(ops) : \/ ops[i].op = "provision" /\ ops[i].res \in {"ok", "corrupted"}
                                      \/ ops[i].op = "save_frag"}
\* memory calls that failed by injection (driver memfaults): the failing memory is legal, the receiver must cope
InjOps(ops) == {i \in 1..Len(ops) : Has(ops[i], "inj")}
GiveBackOk(ops, outTag) ==
  Cardinality(OpsTaken(ops)) = Cardinality(OpsGiven(ops)) + (IF outTag > 0 THEN 1 ELSE 0)

\* ------------------------------------------------------ sender bookkeeping
\* After a successful sender event in a lock-step run: remember what was sent.
RxAfterEncap(rx, e, txPre) ==
  IF ~rx.lock \/ e.res.t \notin {"completed", "fragmented"} \/ Len(e.wire) < 2 THEN rx
  ELSE LET kind == HdrDecode(U16(e.wire, 1)).kind
           intended == IntendedLabel(txPre, e.label)
           \* plain encap with a type below 0x0100: the type field is itself a final mandatory
           \* extension without data, which the receiver reports in its extension list
           exts == IF e.fn = "encap" /\ e.ptype < 256 THEN <<[id |-> e.ptype, data |-> <<>>]>> ELSE e.exts
           s == [pdu |-> e.pdu, intended |-> intended, ptype |-> e.ptype, exts |-> exts]
       IN [rx EXCEPT !.pend = [valid |-> TRUE, wire |-> e.wire, kind |-> kind, id |-> e.fragid, pdu |-> e.pdu,
                               intended |-> intended, ptype |-> e.ptype, exts |-> exts],
                     !.sess = IF e.res.t = "fragmented" THEN (e.fragid :> s) @@ rx.sess ELSE rx.sess]

RxAfterFrag(rx, e) ==
  IF ~rx.lock \/ e.res.t \notin {"completed", "fragmented"} \/ Len(e.wire) < 2 THEN rx
  ELSE [rx EXCEPT !.pend = [NoPend EXCEPT !.valid = TRUE, !.wire = e.wire,
                                          !.kind = HdrDecode(U16(e.wire, 1)).kind, !.id = e.ctx.id]]

\* ------------------------------------------------------------------ decap
RxView(b, mgr) ==
  With(Classify(b), LAMBDA c :
    IF c = "delim"
    THEN With(Delimited(b), LAMBDA p : [cls |-> c, p |-> p, w |-> Parse(p, mgr)])
    ELSE [cls |-> c, p |-> <<>>, w |-> PBad(HdrDecode(0), c)])

GhostOf(rx, id) == IF id \in DOMAIN rx.ghost THEN rx.ghost[id] ELSE NoGhost

\* CRC needed by an end fragment: only when the ghost train has the announced length
RxCrcFor(e, rx, tab) ==
  LET b == e.bytes IN
  IF Classify(b) # "delim" THEN [need |-> FALSE, key |-> <<>>, val |-> ZeroCrc, new |-> FALSE]
  ELSE LET h == HdrDecode(U16(b, 1)) IN
       IF h.kind # "end" \/ h.len < FragIdLen + CrcLen THEN [need |-> FALSE, key |-> <<>>, val |-> ZeroCrc, new |-> FALSE]
       ELSE LET g == GhostOf(rx, b[3])
                n == h.len - FragIdLen - CrcLen
            IN  IF ~g.open \/ Len(g.arrived) + n + PtypeLen + Len(g.first.lb) # g.first.tl
                THEN [need |-> FALSE, key |-> <<>>, val |-> ZeroCrc, new |-> FALSE]
                ELSE [need |-> TRUE, key |-> <<>>, new |-> FALSE,
                      val |-> CrcFields(tab, g.first.tl, g.first.ptype, g.first.lb,
                                        g.arrived \o SubSeq(b, 4, 3 + n))]

MaxArrived == 70000

JudgeDecapQ(e, rx, q, crc) ==
  LET b     == e.bytes
      N     == Len(b)
      r     == e.res
      np    == r.t # "panic"
      cons  == IF np THEN r.consumed ELSE 0
      w     == q.w
      p     == q.p
      pl    == Len(p)
      delim == q.cls = "delim"
      wf    == delim /\ w.ok
      pre   == rx.mem
      post  == e.mem
      probe == Has(e, "probe")
      injSet == InjOps(e.memops)
      inj   == injSet # {}
      injOp == IF inj THEN e.memops[CHOOSE i \in injSet : TRUE].op ELSE "-"
      \* probe packets also decide C16; for packets carrying extensions the delivery obligation is C13's
      PP(ps) == (IF probe THEN Append(ps, "C16") ELSE ps) \o (IF delim /\ Len(w.exts) > 0 THEN <<"C13">> ELSE <<>>)
                \o (IF Has(e, "ilv") THEN <<"C07">> ELSE <<>>)      \* packets of an interleaving scenario
                \o (IF Has(e, "utl") THEN <<"C20">> ELSE <<>>)      \* packets generated by the utils structs
      id    == w.fragId
      kind  == IF delim THEN w.kind ELSE "none"
      isStart == kind \in {"complete", "first"}
      hasMeta == r.t \in {"completed", "fragmented"}
      zeroLab == isStart /\ w.lt = "six" /\ w.label = ZeroSix.b
      wireLabel == [k |-> w.lt, b |-> w.label]
      admFull == rx.adm \ {NoLabel}
      resolvable   == w.lt # "ru" \/ (Cardinality(rx.adm) = 1 /\ admFull # {} /\ Broadcast \notin rx.adm)
      unresolvable == w.lt = "ru" /\ (rx.adm \ {NoLabel, Broadcast}) = {}
      labelOk == hasMeta /\ isStart =>
                   IF w.lt # "ru" THEN r.meta.label = wireLabel ELSE r.meta.label \in admFull
      freeAllFit == \A i \in 1..Len(pre.free) : pre.free[i] >= w.plen
      hasCtx == pre.ok /\ delim /\ kind # "complete" /\ HasCtx(pre, id)
      ctx    == IF hasCtx THEN CtxOf(pre, id) ELSE [tag |-> 0, pdu_len |-> 0, tl |-> 0, id |-> 0, h |-> 0]
      g      == IF delim /\ kind # "complete" THEN GhostOf(rx, id) ELSE NoGhost
      gAgree == g.open /\ hasCtx /\ ctx.pdu_len = Len(g.arrived) /\ ctx.tl = g.first.tl
      \* ---- complete
      cBufOk == pre.ok /\ Len(pre.free) > 0 /\ freeAllFit
      cNoBuf == pre.ok /\ (Len(pre.free) = 0 \/ ~freeAllFit)
      cMust  == wf /\ kind = "complete" /\ ~zeroLab /\ resolvable /\ cBufOk /\ ~inj
      \* ---- first
      tlCons == w.tl >= w.plen + PtypeLen + LtLen(w.lt)
      fBufOk == pre.ok /\ freeAllFit /\ (IF hasCtx THEN ctx.tag >= w.plen ELSE Len(pre.free) > 0)
      fNoBuf == pre.ok /\ ~hasCtx /\ Len(pre.free) = 0
      fMust  == wf /\ kind = "first" /\ ~zeroLab /\ resolvable /\ tlCons /\ fBufOk /\ ~inj
      \* ---- inter / end
      fits    == hasCtx /\ ctx.pdu_len + w.plen <= ctx.tag
      withinTl == gAgree /\ Len(g.arrived) + w.plen + PtypeLen + Len(g.first.lb) <= g.first.tl
      iMust  == wf /\ kind = "inter" /\ gAgree /\ fits /\ withinTl /\ ~inj
      A      == IF wf /\ kind = "end" THEN g.arrived \o Payload(p, w) ELSE <<>>
      verified == wf /\ kind = "end" /\ g.open /\ crc.need /\ crc.val = w.crc
      eMust  == verified /\ gAgree /\ fits /\ ~inj
      unknownId == wf /\ kind \in {"inter", "end"} /\ pre.ok /\ ~hasCtx
      \* ---- lock-step with the sender
      isPend == rx.lock /\ rx.pend.valid /\ b = rx.pend.wire
      sess   == IF isPend /\ rx.pend.id \in DOMAIN rx.sess THEN rx.sess[rx.pend.id] ELSE NoSess
      \* ---- context of this id after the call
      postHas == post.ok /\ delim /\ kind # "complete" /\ HasCtx(post, id)
      pctx   == IF postHas THEN CtxOf(post, id) ELSE [tag |-> 0, pdu_len |-> 0, tl |-> 0, id |-> 0, h |-> 0]
      \* ---- C07: contexts of other ids are untouched
      others == IF pre.ok /\ post.ok
                THEN {i \in 1..Len(pre.ctxs) : ~(delim /\ kind # "complete" /\ pre.ctxs[i].id = id)}
                ELSE {}
      vanished == {i \in others : ~(\E k \in 1..Len(post.ctxs) : post.ctxs[k] = pre.ctxs[i])}
      \* "unless it is a first fragment claiming that slot": a well-formed first fragment
      \* of an aliasing id that was accepted, or that was rejected only because its payload
      \* does not fit the buffer it obtained by claiming the slot
      claims(i) == wf /\ kind = "first"
                   /\ (r.t = "fragmented" \/ (r.t = "err" /\ w.plen > pre.ctxs[i].tag) \/ (inj /\ injOp = "save_frag"))
                   /\ (rx.slots = 0 \/ pre.ctxs[i].id % rx.slots = id % rx.slots)
      strayOk == \/ vanished = {}
                 \/ Cardinality(vanished) = 1 /\ \A i \in vanished : claims(i)
      outTag == IF np /\ Has(r, "out_tag") THEN r.out_tag ELSE 0
      owned2 == IF outTag > 0 THEN rx.owned \cup {outTag} ELSE rx.owned
      \* C19 "these always equal the fragment id and label decap associates with the same packet"
      pk     == rx.peek
      peeked == pk.valid /\ pk.bytes = b
      takeOps == {i \in 1..Len(e.memops) : e.memops[i].op = "take_frag"}
      peekAgrees ==
        /\ (peeked /\ hasMeta /\ isStart /\ pk.res.t = "label" => r.meta.label = pk.res.label)
        /\ (peeked /\ hasMeta /\ isStart /\ pk.res.t = "err" => w.lt = "ru")
        /\ (peeked /\ hasMeta /\ isStart => pk.res.t # "fragid")
        /\ (peeked /\ np /\ pk.res.t = "fragid" => \A i \in takeOps : e.memops[i].id = pk.res.id)
        /\ (peeked /\ hasMeta /\ kind \in {"inter", "end"} => pk.res.t = "fragid")
      \* ------------------------------------------------------------ verdicts
      verdicts ==
           V(peekAgrees, <<"C19">>, "Peek.AgreesWithDecap")
        \cup V(np, IF inj THEN <<"C05", "C08">> ELSE <<"C05">>, "Rx.NoPanic")
        \cup V(np => cons <= N, <<"C05">>, "Rx.ConsumedWithinBuffer")
        \cup V(np /\ N > 0 => cons >= MinI(2, N), <<"C05">>, "Rx.ConsumedProgress")
        \cup V(np /\ N >= 2 /\ AllZero(b) => (r.t = "padding" /\ cons = N), <<"C10">>, "Rx.PaddingConsumesRest")
        \cup V(np /\ r.t = "padding" => q.cls = "pad", <<"C10", "C14">>, "Rx.PaddingOnlyForPaddingHeader")
        \cup V(hasMeta /\ delim => cons = pl, <<"C01", "C02", "C10">>, "Rx.OkConsumesPacket")
        \cup V(hasMeta /\ delim => ((r.t = "completed") <=> (kind \in {"complete", "end"})), <<"C02", "C01">>, "Rx.StatusMatchesKind")
        \cup V(hasMeta /\ delim /\ isStart => w.ok, <<"C13", "C05">>, "Rx.AcceptedStartIsWellFormed")
        \cup V(delim /\ w.why = "unknown_mandatory" => (r.t = "err" /\ cons = pl), <<"C13", "C10">>, "Rx.UnknownMandatoryDropsWhole")
        \cup V(labelOk, <<"C04">>, "Rx.ResolveNearest")
        \* complete packets
        \cup V(cMust => r.t = "completed", PP(<<"C01">>), "Rx.CompleteDeliver")
        \cup V(wf /\ kind = "complete" /\ r.t = "completed" =>
                  /\ r.pdu = Payload(p, w) /\ r.meta.pdu_len = w.plen
                  /\ r.meta.ptype = w.ptype, PP(<<"C01">>), "Rx.CompleteContent")
        \cup V(wf /\ isStart /\ hasMeta => r.meta.exts = w.exts, <<"C13">>, "Rx.ExtensionsReported")
        \cup V(wf /\ kind = "complete" /\ ~zeroLab /\ r.t = "err" /\ (cNoBuf \/ unresolvable) => cons = pl, <<"C10">>, "Rx.RejectOwnLen.complete")
        \* first fragments
        \cup V(fMust => r.t = "fragmented", PP(<<"C02">>), "Rx.FirstAccept")
        \cup V(wf /\ kind = "first" /\ r.t = "fragmented" => r.meta.ptype = w.ptype, PP(<<"C02">>), "Rx.FirstMeta")
        \cup V(wf /\ kind = "first" /\ r.t = "fragmented" /\ post.ok =>
                  (postHas /\ pctx.pdu_len = w.plen /\ pctx.tl = w.tl), <<"C07", "C02">>, "Rx.FirstOpensContext")
        \cup V(wf /\ kind = "first" /\ ~zeroLab /\ tlCons /\ r.t = "err" /\ (fNoBuf \/ unresolvable) => cons = pl, <<"C10">>, "Rx.RejectOwnLen.first")
        \* intermediate fragments
        \cup V(iMust => r.t = "fragmented", PP(<<"C02">>), "Rx.Append")
        \cup V(wf /\ kind = "inter" /\ r.t = "fragmented" /\ g.open =>
                  /\ r.meta.label = g.first.label /\ r.meta.ptype = g.first.ptype /\ r.meta.exts = g.first.exts,
               PP(<<"C02">>), "Rx.InterMetaIsFirsts")
        \cup V(wf /\ kind = "inter" /\ r.t = "fragmented" /\ hasCtx /\ post.ok =>
                  (postHas /\ pctx.pdu_len = ctx.pdu_len + w.plen /\ pctx.tag = ctx.tag), <<"C07", "C02">>, "Rx.AppendAdvances")
        \cup V(wf /\ kind = "inter" /\ hasMeta => hasCtx \/ ~pre.ok, <<"C07">>, "Rx.InterNeedsContext")
        \* end fragments
        \* any delivery that is not a well-formed complete packet must be a verified end fragment
        \cup V(r.t = "completed" /\ ~(wf /\ kind = "complete") => (wf /\ kind = "end" /\ g.open /\ verified), <<"C03">>, "Rx.DeliverOnlyVerified")
        \cup V(wf /\ kind = "end" /\ r.t = "completed" /\ g.open =>
                  /\ r.pdu = A /\ r.meta.pdu_len = Len(A)
                  /\ r.meta.label = g.first.label /\ r.meta.ptype = g.first.ptype /\ r.meta.exts = g.first.exts,
               PP(<<"C03">>), "Rx.DeliveredIsConcatenation")
        \cup V(kind = "end" /\ r.t = "completed" => ~g.done, <<"C07", "C02">>, "Rx.ExactlyOnce")
        \* (a train that verifies under the specification's CRC must be delivered: if it is not, the receiver's
        \* own length / CRC recomputation is at fault - C12 for the CRC arguments)
        \cup V(eMust => r.t = "completed", PP(<<"C02", "C12">>), "Rx.EndDelivers")
        \cup V(wf /\ kind = "end" /\ r.t = "err" /\ gAgree /\ ~verified => cons = pl, <<"C10">>, "Rx.RejectOwnLen.badcrc")
        \cup V(unknownId => (r.t = "err" /\ cons = pl), <<"C10", "C07">>, "Rx.UnknownIdRejectedOwnLen")
        \* isolation, conservation
        \cup V(strayOk, <<"C07">>, "Rx.OtherContextsUntouched")
        \cup V(post.ok => Conserved(post, rx.prov, owned2), <<"C08">>, "Rx.Conservation")
        \cup V(np => GiveBackOk(e.memops, outTag), <<"C08">>, "Rx.GiveBack")
        \* interleavings (driver claims: all fragments of PDU e.of were fed in order on a separately tracked id)
        \cup V(Has(e, "of") /\ ~inj /\ wf /\ kind = "end" /\ g.open /\ A = PduBytes(e.of) =>
                  (r.t = "completed" /\ r.pdu = PduBytes(e.of)), <<"C07">>, "Rx.InterleavedDelivered")
        \* frames: same outcome as the same packet decapsulated alone by a twin receiver
        \cup V(Has(e, "alone") /\ np /\ e.alone.t # "panic" =>
                  /\ r.t = e.alone.t /\ cons = e.alone.consumed
                  /\ (r.t = "err" => r.e = e.alone.e)
                  /\ (hasMeta => r.meta = e.alone.meta)
                  /\ (r.t = "completed" => r.pdu = e.alone.pdu), <<"C10">>, "Rx.TailIndependent")
        \* lock-step: the end packet of a train the real sender produced, fed in order into a receiver that
        \* kept every fragment, completes the PDU
        \cup V(isPend /\ rx.pend.kind = "end" /\ wf /\ kind = "end" /\ gAgree /\ fits /\ ~inj => r.t = "completed",
               IF Len(sess.exts) > 0 THEN Append(PP(<<"C02">>), "C13") ELSE PP(<<"C02">>), "Rx.LockStepEndDelivers")
        \* lock-step attribution and round trip
        \cup V(isPend /\ hasMeta /\ rx.pend.kind \in {"complete", "first"} => r.meta.label = rx.pend.intended,
               IF rx.pend.kind = "complete" THEN <<"C04", "C01">> ELSE <<"C04", "C02">>, "Rx.Attribution")
        \cup V(isPend /\ hasMeta /\ rx.pend.kind \in {"inter", "end"} => r.meta.label = sess.intended, <<"C04", "C02">>, "Rx.Attribution.frag")
        \cup V(isPend /\ r.t = "completed" /\ rx.pend.kind = "complete" =>
                  /\ r.pdu = PduBytes(rx.pend.pdu) /\ r.meta.ptype = rx.pend.ptype /\ r.meta.exts = rx.pend.exts,
               <<"C01", "C13">>, "Rx.RoundTrip.complete")
        \cup V(isPend /\ r.t = "completed" /\ rx.pend.kind = "end" =>
                  /\ r.pdu = PduBytes(sess.pdu) /\ r.meta.ptype = sess.ptype /\ r.meta.exts = sess.exts,
               <<"C02", "C13">>, "Rx.RoundTrip.fragmented")
      hs ==   H(TRUE, "Rx.NoPanic") \cup H(np, "Rx.ConsumedWithinBuffer") \cup H(np /\ N > 0, "Rx.ConsumedProgress")
         \cup H(np /\ N >= 2 /\ AllZero(b), "Rx.PaddingConsumesRest") \cup H(np /\ r.t = "padding", "Rx.PaddingOnlyForPaddingHeader")
         \cup H(hasMeta /\ delim, "Rx.OkConsumesPacket")
         \cup H(hasMeta /\ delim, "Rx.StatusMatchesKind") \cup H(hasMeta /\ delim /\ isStart, "Rx.AcceptedStartIsWellFormed")
         \cup H(delim /\ w.why = "unknown_mandatory", "Rx.UnknownMandatoryDropsWhole")
         \cup H(hasMeta /\ isStart /\ w.lt = "ru", "Rx.ResolveNearest")
         \cup H(cMust, "Rx.CompleteDeliver") \cup H(wf /\ kind = "complete" /\ r.t = "completed", "Rx.CompleteContent")
         \cup H(wf /\ isStart /\ hasMeta /\ Len(w.exts) > 0, "Rx.ExtensionsReported")
         \cup H(wf /\ kind = "complete" /\ ~zeroLab /\ r.t = "err" /\ (cNoBuf \/ unresolvable), "Rx.RejectOwnLen.complete")
         \cup H(fMust, "Rx.FirstAccept") \cup H(wf /\ kind = "first" /\ r.t = "fragmented", "Rx.FirstMeta")
         \cup H(wf /\ kind = "first" /\ r.t = "fragmented" /\ post.ok, "Rx.FirstOpensContext")
         \cup H(wf /\ kind = "first" /\ ~zeroLab /\ tlCons /\ r.t = "err" /\ (fNoBuf \/ unresolvable), "Rx.RejectOwnLen.first")
         \cup H(iMust, "Rx.Append") \cup H(wf /\ kind = "inter" /\ r.t = "fragmented" /\ g.open, "Rx.InterMetaIsFirsts")
         \cup H(wf /\ kind = "inter" /\ r.t = "fragmented" /\ hasCtx /\ post.ok, "Rx.AppendAdvances")
         \cup H(wf /\ kind = "inter" /\ hasMeta, "Rx.InterNeedsContext")
         \cup H(r.t = "completed" /\ ~(wf /\ kind = "complete"), "Rx.DeliverOnlyVerified")
         \cup H(wf /\ kind = "end" /\ r.t = "completed" /\ g.open, "Rx.DeliveredIsConcatenation")
         \cup H(wf /\ kind = "end" /\ g.open /\ ~verified, "Rx.EndNotVerified")
         \cup H(kind = "end" /\ r.t = "completed", "Rx.ExactlyOnce") \cup H(eMust, "Rx.EndDelivers")
         \cup H(wf /\ kind = "end" /\ r.t = "err" /\ gAgree /\ ~verified, "Rx.RejectOwnLen.badcrc")
         \cup H(unknownId, "Rx.UnknownIdRejectedOwnLen")
         \cup H(pre.ok /\ post.ok /\ others # {}, "Rx.OtherContextsUntouched")
         \cup H(post.ok /\ rx.prov # {}, "Rx.Conservation") \cup H(np /\ Len(e.memops) > 0, "Rx.GiveBack")
         \cup H(peeked /\ (hasMeta \/ pk.res.t = "fragid"), "Peek.AgreesWithDecap")
         \cup H(inj, "Rx.InjectedMemoryFailure") \cup H(inj /\ post.ok /\ Len(StashOf(post)) > 0, "Rx.Conservation.stash")
         \cup H(inj /\ outTag > 0, "Rx.GiveBack.injected")
         \cup H(isPend /\ hasMeta /\ rx.pend.kind \in {"complete", "first"}, "Rx.Attribution")
         \cup H(isPend /\ hasMeta /\ rx.pend.kind \in {"inter", "end"}, "Rx.Attribution.frag")
         \cup H(isPend /\ r.t = "completed" /\ rx.pend.kind = "complete", "Rx.RoundTrip.complete")
         \cup H(isPend /\ r.t = "completed" /\ rx.pend.kind = "end", "Rx.RoundTrip.fragmented")
         \cup H(probe, "Rx.Probe") \cup H(isPend /\ rx.pend.kind = "end" /\ wf /\ kind = "end" /\ gAgree /\ fits, "Rx.LockStepEndDelivers")
         \cup H(Has(e, "of") /\ wf /\ kind = "end" /\ g.open /\ A = PduBytes(e.of), "Rx.InterleavedDelivered")
         \cup H(Has(e, "of") /\ ~(wf /\ kind = "end" /\ g.open /\ A = PduBytes(e.of)), "Rx.InterleaveClaimNotMet")
         \cup H(Has(e, "alone") /\ np /\ e.alone.t # "panic" /\ N > pl /\ delim, "Rx.TailIndependent")
      \* ------------------------------------------------------ state update
      adm2 ==
        IF isStart /\ hasMeta THEN
             (IF w.lt = "bc" THEN {NoLabel, Broadcast}
              ELSE IF w.lt = "ru" THEN {r.meta.label}
              ELSE {wireLabel})
        ELSE IF isStart /\ pl >= (IF kind = "first" THEN 7 ELSE 4) + LtLen(w.lt) THEN
             \* rejected start/complete packet whose label field is readable
             (IF w.lt = "ru" THEN rx.adm \cup {NoLabel}
              ELSE IF w.lt = "bc" THEN {NoLabel, Broadcast}
              \* a delimited start/complete packet whose label is known - also when it is dropped for an unknown
              \* mandatory extension - is "the nearest preceding start or complete packet" from now on
              ELSE IF w.ok \/ w.why = "unknown_mandatory" THEN {NoLabel, [k |-> w.lt, b |-> w.label]}
              \* any other delimited start packet whose label field lies inside the packet (e.g. an extension chain
              \* cut short by the GSE length): it is the nearest preceding start packet all the same
              ELSE {NoLabel, [k |-> w.lt, b |-> SubSeq(p, IF kind = "first" THEN 8 ELSE 5, (IF kind = "first" THEN 7 ELSE 4) + LtLen(w.lt))]})
        \* well-formed intermediate / end packets carry no label: they leave the label memory alone (C04 "fragment
        \* traffic", C07 "packets of unknown fragment ids"), whether they are accepted or rejected
        ELSE IF wf /\ kind \in {"inter", "end"} THEN rx.adm
        ELSE rx.adm \cup {NoLabel}
      \* a packet whose processing was cut short by an injected memory failure: take_frag / new_frag failed ->
      \* nothing changed, the packet counts as lost before the receiver (C03 presupposes a working memory);
      \* save_frag failed -> the memory swallowed the context, nothing of that id can be delivered any more
      newGhost ==
        IF inj /\ injOp \in {"take_frag", "new_frag", "new_pdu"} THEN rx.ghost
        ELSE IF inj /\ injOp = "save_frag" /\ delim /\ kind # "complete" THEN (id :> NoGhost) @@ rx.ghost
        ELSE IF wf /\ kind = "first" /\ r.t = "fragmented"
        THEN (id :> [open |-> TRUE, done |-> FALSE, arrived |-> Payload(p, w),
                     first |-> [label |-> r.meta.label, lt |-> w.lt, lb |-> w.label, ptype |-> w.ptype,
                                tl |-> w.tl, exts |-> w.exts]]) @@ rx.ghost
        ELSE IF delim /\ kind = "first" /\ r.t = "fragmented"
        THEN (id :> NoGhost) @@ rx.ghost       \* accepted a malformed first fragment: nothing can be verified from it
        ELSE IF wf /\ kind \in {"inter", "end"} /\ g.open
        THEN (id :> [g EXCEPT !.arrived = IF Len(g.arrived) + w.plen > MaxArrived THEN g.arrived ELSE g.arrived \o Payload(p, w),
                              !.open = ~(kind = "end" /\ r.t = "completed"),
                              !.done = (kind = "end" /\ r.t = "completed")]) @@ rx.ghost
        ELSE rx.ghost
      rx2 == [rx EXCEPT !.adm = adm2, !.mem = post, !.owned = owned2, !.ghost = newGhost, !.peek.valid = FALSE,
                        \* lock-step survives receiver-only traffic that cannot set the label memory
                        !.lock = rx.lock /\ (isPend \/ ~isStart), !.pend = IF isPend THEN NoPend ELSE rx.pend]
  IN  [ bad |-> verdicts, hits |-> hs, rx |-> rx2,
        cls |-> <<"decap", q.cls, kind, IF delim THEN w.why ELSE "-", IF delim THEN w.lt ELSE "-",
                  IF r.t = "err" THEN r.e ELSE r.t, SizeClass(N), hasCtx, g.open, Len(pre.free) > 0, injOp>> ]

JudgeDecap(e, rx, crc) == With(RxView(e.bytes, rx.mgr), LAMBDA q : JudgeDecapQ(e, rx, q, crc))

\* ------------------------------------------------------------------- peek
\* C19 (for packets produced by the encapsulator: flag enc) and C05 (totality)
JudgePeek(e, rx) ==
  LET b == e.bytes
      r == e.res
      c == Classify(b)
      enc == Has(e, "enc") /\ e.enc
      hOk == c = "delim"
      h == IF hOk THEN HdrDecode(U16(b, 1)) ELSE HdrDecode(0)
      ll == LtLen(h.lt)
      base == IF h.kind = "first" THEN 8 ELSE 5
      fieldsFit == hOk /\ (IF h.kind \in {"inter", "end"} THEN h.len >= 1 ELSE h.len >= base - 3 + ll)
      expect == IF h.kind \in {"inter", "end"} THEN [t |-> "fragid", id |-> b[3]]
                ELSE IF h.lt = "ru" THEN [t |-> "err", e |-> "ErrLabelReuse"]
                ELSE [t |-> "label", label |-> [k |-> h.lt, b |-> SubSeq(b, base, base + ll - 1)]]
  IN  [ bad |-> V(r.t # "panic", <<"C05">>, "Peek.NoPanic")
             \cup V(enc /\ fieldsFit => r = expect, <<"C19">>, "Peek.AgreesWithPacket"),
        hits |-> H(TRUE, "Peek.NoPanic") \cup H(enc /\ fieldsFit, "Peek.AgreesWithPacket"),
        rx |-> [rx EXCEPT !.peek = [valid |-> enc /\ r.t # "panic", bytes |-> b, res |-> r]],
        cls |-> <<"peek", c, h.kind, h.lt, r.t, Len(b) > (IF hOk THEN h.len + 2 ELSE 0)>> ]

\* -------------------------------------------------------------- provision
JudgeProvision(e, rx) ==
  LET t == e.tag
      ok == e.res = "ok"
      prov2 == rx.prov \cup {t}
      owned2 == IF ok THEN rx.owned \ {t}
                ELSE IF e.back = t THEN rx.owned \cup {t}
                ELSE rx.owned \ {t}           \* not handed back: the conservation check will miss it
      post == e.mem
  IN  [ bad |-> V(e.res # "panic", <<"C05", "C08">>, "Prov.NoPanic")
             \cup V(~ok /\ e.res # "panic" => e.back = t, <<"C08", "C17">>, "Prov.FailureHandsBufferBack")
             \cup V(post.ok => Conserved(post, prov2, owned2), <<"C08">>, "Prov.Conservation"),
        hits |-> H(TRUE, "Prov.NoPanic") \cup H(~ok, "Prov.FailureHandsBufferBack") \cup H(post.ok, "Prov.Conservation"),
        rx |-> [rx EXCEPT !.prov = prov2, !.owned = owned2, !.mem = post],
        cls |-> <<"provision", e.res>> ]

\* the caller takes a free buffer through Decapsulator::new_pdu
JudgeTake(e, rx) ==
  LET owned2 == IF e.res = "ok" THEN rx.owned \cup {e.tag} ELSE rx.owned
  IN [ bad |-> V(e.res # "panic", <<"C08">>, "Take.NoPanic")
            \cup V(e.mem.ok => Conserved(e.mem, rx.prov, owned2), <<"C08">>, "Take.Conservation")
            \cup V(rx.mem.ok /\ Len(rx.mem.free) > 0 => e.res = "ok", <<"C17">>, "Take.SucceedsWhenFree"),
       hits |-> H(TRUE, "Take.NoPanic") \cup H(e.mem.ok, "Take.Conservation") \cup H(rx.mem.ok /\ Len(rx.mem.free) > 0, "Take.SucceedsWhenFree"),
       rx |-> [rx EXCEPT !.owned = owned2, !.mem = e.mem], cls |-> <<"take", e.res>> ]

JudgeDrain(e, rx) ==
  [ bad |-> V(e.mem.ok => Conserved(e.mem, rx.prov, rx.owned), <<"C08">>, "Drain.Conservation"),
    hits |-> H(e.mem.ok /\ rx.prov # {}, "Drain.Conservation"),
    rx |-> rx, cls |-> <<"drain">> ]

\* ----------------------------------------------------------- decap family
\* All 3-byte strings <<b0, b1, b2>> for (b1, b2) in a lexicographic range gave
\* the same observation (C05): judged once for the whole run.
JudgeFamily(e, rx) ==
  [ bad |-> V(e.t # "panic", <<"C05">>, "Family.NoPanic")
         \cup V(~e.peek_panic, <<"C05">>, "Family.PeekNoPanic")
         \cup V(e.t # "panic" => (e.consumed <= 3 /\ e.consumed >= 2), <<"C05">>, "Family.ConsumedBounds")
         \cup V(e.b0 = 0 /\ e.from = <<0, 0>> /\ e.t # "panic" => (e.t = "padding" /\ e.consumed = 3), <<"C10">>, "Family.ZeroIsPadding")
         \cup V(e.t = "padding" => e.b0 < 16, <<"C10", "C14">>, "Family.PaddingOnlyForPaddingHeader"),
    hits |-> H(TRUE, "Family.NoPanic") \cup H(TRUE, "Family.PeekNoPanic") \cup H(e.t # "panic", "Family.ConsumedBounds")
         \cup H(e.b0 = 0 /\ e.from = <<0, 0>>, "Family.ZeroIsPadding") \cup H(e.t = "padding", "Family.PaddingOnlyForPaddingHeader"),
    rx |-> rx, cls |-> <<"family", e.b0 \div 16, e.t, e.consumed, e.mem_same>>, weight |-> e.n ]

\* --------------------------------------------------------------- dispatch
RxStep(e, rx, tx, crc) ==
  CASE e.ev = "decap"     -> JudgeDecap(e, rx, crc)
    [] e.ev = "peek"      -> JudgePeek(e, rx)
    [] e.ev = "provision" -> JudgeProvision(e, rx)
    [] e.ev = "drain"     -> JudgeDrain(e, rx)
    [] e.ev = "take"      -> JudgeTake(e, rx)
    [] e.ev = "decap_family" -> JudgeFamily(e, rx)
    [] e.ev = "rx_reset"  -> [bad |-> {}, hits |-> {}, cls |-> <<"rx_reset">>, rx |-> [rx EXCEPT !.adm = {NoLabel}]]
    [] OTHER              -> [bad |-> {}, hits |-> {}, cls |-> <<"other", e.ev>>, rx |-> rx]
=============================================================================
