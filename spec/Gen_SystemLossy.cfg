SPECIFICATION Spec
CONSTANTS
  GseLenMax = 4095
  TotalLenMax = 65535
  MaxPdus = 5
  FragIds = {0, 1}
  Slots = 2
  QLen = 2
  Loss = TRUE
  Dup = TRUE
  Maxes = {1}
  Export = TRUE
  Depth = 16
INVARIANTS ExportInv
CHECK_DEADLOCK FALSE
