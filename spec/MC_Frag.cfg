SPECIFICATION Spec
CONSTANTS
  GseLenMax = 15
  TotalLenMax = 31
  ExtLens = {0, 2, 4, 10}
  PduLens = {0,1,2,3,4,5,6,7,8,9,10,11,12,13,14,15,16,17,18,19,20,21,22,23,24,25,26,27,28,29,30,31,32}
  Bufs = {0,1,2,3,4,5,6,7,8,9,10,11,12,13,14,15,16,17,18,19,20,21,22}
  AllFills = TRUE
  MaxCalls = 100
VIEW View
PROPERTY PacketsAlways
INVARIANTS DeliveredOnce Buf13Accepted Buf7Accepted ProgressBound
CHECK_DEADLOCK FALSE
