SPECIFICATION Spec
CONSTANTS
  GseLenMax = 4095
  TotalLenMax = 65535
  ExtLens = {0, 2, 4, 10}
  PduLens = {0,1,26,4086,4087,4088,4089,4090,4091,4092,4093,4094,4095,4096,65526,65527,65528,65529,65530,65531,65532,65533,65534,70000}
  Bufs = {0,3,4,6,7,12,13,14,100,4096,4097,4098,4100,70000}
  AllFills = FALSE
  MaxCalls = 4
CONSTRAINT Bounded
VIEW View
PROPERTY PacketsAlways
INVARIANTS DeliveredOnce Buf13Accepted Buf7Accepted ProgressBound
CHECK_DEADLOCK FALSE
