----------------------------- MODULE MC_System -----------------------------
(***************************************************************************)
(* The whole system composed: one sender (label policy of GseSender, PDUs  *)
(* sent as complete packets or as three-packet trains on a fragment id,    *)
(* several trains open at the same time), an in-order channel that may be  *)
(* told to lose or duplicate packets, frame boundaries that reset both     *)
(* label memories, and one receiver (label memory + reassembly contexts).  *)
(*                                                                         *)
(* The per-component models (MC_Labels, MC_Frag, MC_Rx) check each         *)
(* relation against an adversarial environment; this one checks that the   *)
(* relations fit together: what the receiver delivers is what the sender   *)
(* sent, once, to the label the sender meant (C02 C04 C07), and - as       *)
(* growth beyond the listed properties - what remains of that when the     *)
(* channel loses or duplicates packets.                                    *)
(*                                                                         *)
(* Payload is abstract: PDU p is the train <<p,1>>,<<p,2>>,<<p,3>> and the *)
(* CRC names the PDU it was computed over (a perfect checksum).            *)
(***************************************************************************)
EXTENDS GseSender, TLC, SequencesExt

CONSTANTS MaxPdus,     \* PDUs the sender may submit
          FragIds,     \* fragment ids the sender uses
          Slots,       \* receiver memory slots (id % Slots)
          QLen,        \* packets in flight
          Loss, Dup,   \* BOOLEAN: the channel may lose / duplicate the packet at its head
          Maxes,       \* values for enable_re_use_label_with_max_consecutive
          Export, Depth \* Export = TRUE: record the actions as scenario tokens and print each behaviour of length Depth (S->I)

LA == [k |-> "six", b |-> <<1, 2, 3, 4, 5, 6>>]
LB == [k |-> "three", b |-> <<7, 7, 1>>]
Passed == {LA, LB, Broadcast, ReUseL}          \* what the caller may pass as label

NoCtx == [used |-> FALSE, id |-> 0, pdu |-> 0, n |-> 0, label |-> NoLabel]

VARIABLES tx,        \* sender label state (GseSender)
          nsent,     \* PDUs submitted so far
          sent,      \* pdu -> [intended, frag, passed]   (ghost)
          open,      \* sender's open fragmentations: set of [pdu, id, next]
          chan,      \* packets in flight, in order
          last,      \* receiver label memory: NoLabel | Broadcast | a full label
          slot,      \* receiver contexts
          deliv,     \* sequence of [pdu, label] delivered (ghost)
          hist       \* ghost (Export only): scenario tokens for `gse_harness sysscn --scn`
vars == <<tx, nsent, sent, open, chan, last, slot, deliv, hist>>
Rec(tok) == hist' = IF Export THEN Append(hist, tok) ELSE hist
LabTok(L) == CASE L = LA -> "A" [] L = LB -> "B" [] L = Broadcast -> "bc" [] OTHER -> "ru"
ExportInv == (Export /\ Len(hist) = Depth) =>
                PrintT("SCNLINE " \o ToString(Slots) \o FoldLeft(LAMBDA a, b : a \o " " \o b, "", hist))

Init ==
  /\ tx = TxInit /\ nsent = 0 /\ sent = [p \in {} |-> 0] /\ open = {} /\ chan = <<>>
  /\ last = NoLabel /\ slot = [k \in 0..(Slots - 1) |-> NoCtx] /\ deliv = <<>> /\ hist = <<>>

\* ------------------------------------------------------------------ sender
WireLabel(s, L) == IF SubstAllowed(s, L) THEN "ru" ELSE L.k
WireRec(s, L)   == IF SubstAllowed(s, L) \/ L.k = "ru" THEN ReUseL ELSE L

\* a complete packet or the first fragment of a train
Submit(L, frag, id) ==
  /\ nsent < MaxPdus /\ Len(chan) < QLen
  /\ frag => ~(\E o \in open : o.id = id)                 \* one train per fragment id at a time
  /\ frag => ~(\E o \in open : o.id % Slots = id % Slots) \* C07: ids the receiver tracks separately
  /\ LET p == nsent + 1
         pkt == [kind |-> IF frag THEN "first" ELSE "complete", pdu |-> p, id |-> id, wl |-> WireRec(tx, L), k |-> 1]
     IN /\ nsent' = p
        /\ sent' = (p :> [intended |-> IntendedLabel(tx, L), frag |-> frag, passed |-> L.k]) @@ sent
        /\ tx' = TxAfterStart(tx, L, WireLabel(tx, L))
        /\ chan' = Append(chan, pkt)
        /\ open' = IF frag THEN open \cup {[pdu |-> p, id |-> id, next |-> 2]} ELSE open
  /\ UNCHANGED <<last, slot, deliv>>
  /\ Rec("sub:" \o LabTok(L) \o ":" \o (IF frag THEN "1" ELSE "0") \o ":" \o ToString(id))

Continue(o) ==
  /\ Len(chan) < QLen
  /\ chan' = Append(chan, [kind |-> IF o.next = 3 THEN "end" ELSE "inter", pdu |-> o.pdu, id |-> o.id, wl |-> ReUseL, k |-> o.next])
  /\ open' = IF o.next = 3 THEN open \ {o} ELSE (open \ {o}) \cup {[o EXCEPT !.next = 3]}
  /\ UNCHANGED <<tx, nsent, sent, last, slot, deliv>>
  /\ Rec("cont:" \o ToString(o.id))

Configure(op, n) ==
  /\ tx' = TxCfg(tx, op, n)
  /\ UNCHANGED <<nsent, sent, open, chan, last, slot, deliv>>
  /\ Rec("cfg:" \o op \o ":" \o ToString(n))

\* frame boundary: nothing in flight, both label memories reset together (trains go on)
Frame ==
  /\ chan = <<>>
  /\ tx' = TxCfg(tx, "reset", 0) /\ last' = NoLabel
  /\ UNCHANGED <<nsent, sent, open, chan, slot, deliv>>
  /\ Rec("frame")

\* ---------------------------------------------------------------- receiver
Resolve(wl) == IF wl.k = "ru" THEN (IF IsFullKind(last.k) THEN last ELSE NoLabel) ELSE wl
LastAfter(wl, ok) == IF wl.k = "ru" THEN (IF ok THEN last ELSE NoLabel) ELSE IF wl.k = "bc" THEN Broadcast ELSE wl

RxStep(pk) ==
  LET k == pk.id % Slots IN
  CASE pk.kind = "complete" ->
         LET lab == Resolve(pk.wl) IN
         /\ last' = LastAfter(pk.wl, lab # NoLabel)
         /\ deliv' = IF lab # NoLabel THEN Append(deliv, [pdu |-> pk.pdu, label |-> lab]) ELSE deliv
         /\ slot' = slot
    [] pk.kind = "first" ->
         LET lab == Resolve(pk.wl) IN
         /\ last' = LastAfter(pk.wl, lab # NoLabel)
         /\ slot' = IF lab # NoLabel THEN [slot EXCEPT ![k] = [used |-> TRUE, id |-> pk.id, pdu |-> pk.pdu, n |-> 1, label |-> lab]] ELSE slot
         /\ deliv' = deliv
    [] pk.kind = "inter" ->
         /\ last' = last /\ deliv' = deliv
         /\ slot' = IF slot[k].used /\ slot[k].id = pk.id
                    THEN (IF slot[k].n < 3 THEN [slot EXCEPT ![k].n = slot[k].n + 1,
                                                            \* a token of another train or out of place spoils the train
                                                            ![k].pdu = IF slot[k].pdu = pk.pdu /\ pk.k = slot[k].n + 1 THEN slot[k].pdu ELSE 0]
                          ELSE [slot EXCEPT ![k] = NoCtx])
                    ELSE slot
    [] OTHER ->     \* end
         /\ last' = last
         /\ slot' = IF slot[k].used /\ slot[k].id = pk.id THEN [slot EXCEPT ![k] = NoCtx] ELSE slot
         /\ deliv' = IF slot[k].used /\ slot[k].id = pk.id /\ slot[k].n = 2 /\ slot[k].pdu = pk.pdu /\ pk.pdu # 0
                     THEN Append(deliv, [pdu |-> pk.pdu, label |-> slot[k].label]) ELSE deliv

Recv == /\ chan # <<>> /\ RxStep(Head(chan)) /\ chan' = Tail(chan) /\ UNCHANGED <<tx, nsent, sent, open>> /\ Rec("recv")
Lose == /\ Loss /\ chan # <<>> /\ chan' = Tail(chan) /\ UNCHANGED <<tx, nsent, sent, open, last, slot, deliv>> /\ Rec("lose")
Twice == /\ Dup /\ chan # <<>> /\ RxStep(Head(chan)) /\ UNCHANGED <<tx, nsent, sent, open, chan>> /\ Rec("twice")

Next ==
  \/ \E L \in Passed, frag \in BOOLEAN, id \in FragIds : Submit(L, frag, id)
  \/ \E o \in open : Continue(o)
  \/ \E op \in {"disable", "enable"} : Configure(op, 0)
  \/ \E n \in Maxes : Configure("enable_max", n)
  \/ Frame \/ Recv \/ Lose \/ Twice

Spec == Init /\ [][Next]_vars
\* a duplicating channel can deliver the same complete packet for ever: bound the ghost
Bounded == Len(deliv) <= MaxPdus + 2

\* -------------------------------------------------------------- properties
Delivered(p) == {i \in 1..Len(deliv) : deliv[i].pdu = p}

\* C02 C03 C07: only PDUs that were sent are delivered - whatever the channel does
OnlySent == \A i \in 1..Len(deliv) : deliv[i].pdu \in DOMAIN sent

\* C02 C07: at most once (a duplicating channel can of course deliver a complete packet twice)
AtMostOnce == ~Dup => \A p \in DOMAIN sent : Cardinality(Delivered(p)) <= 1
\* ... and even a duplicating channel never delivers a fragmented PDU twice (C03, C07 exactly-once)
FragAtMostOnce == \A p \in DOMAIN sent : sent[p].frag => Cardinality(Delivered(p)) <= 1

\* C04: delivered to the label the sender meant - for a channel that neither loses nor duplicates
Attribution == \A i \in 1..Len(deliv) : deliv[i].label = sent[deliv[i].pdu].intended
AttributionInOrder == (~Loss /\ ~Dup) => Attribution

\* C01 C02 C04: with a faithful channel, once nothing is in flight or open, every PDU whose label could be
\* passed with an explicit or broadcast label was delivered (an explicit re-use label may be unresolvable)
Quiet == chan = <<>> /\ open = {}
Complete == (~Loss /\ ~Dup /\ Quiet) =>
               \A p \in DOMAIN sent : sent[p].passed # "ru" => Cardinality(Delivered(p)) = 1

\* growth: what survives loss.  Content is never wrong and nothing is delivered twice; the label can be:
\* a lost start packet followed by a re-use packet is attributed to the label remembered before
AttributionUnderLoss == Attribution
=============================================================================
