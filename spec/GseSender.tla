----------------------------- MODULE GseSender -----------------------------
(***************************************************************************)
(* The sender (Encapsulator) as relations built from property sentences.   *)
(*                                                                         *)
(* Abstract sender state (what the properties talk about, not the struct): *)
(*   en   : re-use substitution enabled                                    *)
(*   max  : configured maximum of consecutive substitutions (0 = no limit) *)
(*   run  : substitutions emitted since the last full-label start/complete *)
(*          packet or configuration call                                   *)
(*   prev : the label the immediately preceding successfully emitted       *)
(*          start/complete packet stood for (NoLabel after reset / fresh)  *)
(* Every operator here is shared by the MC models and by the trace spec.   *)
(***************************************************************************)
EXTENDS GseWire

NoLabel   == [k |-> "none", b |-> <<>>]
Broadcast == [k |-> "bc", b |-> <<>>]
ReUseL    == [k |-> "ru", b |-> <<>>]
ZeroSix   == [k |-> "six", b |-> <<0, 0, 0, 0, 0, 0>>]

TxInit == [en |-> TRUE, max |-> 0, run |-> 0, prev |-> NoLabel]

IsFullKind(k) == k \in {"six", "three"}

\* C15: when may the encapsulator replace label L by the re-use marker?
\* Only for a 3/6-byte label identical to the one the immediately preceding
\* start/complete packet stood for, only when enabled, and only while the
\* configured maximum of consecutive substitutions is not exhausted.
SubstAllowed(s, L) ==
  /\ s.en
  /\ IsFullKind(L.k)
  /\ s.prev = L
  /\ (s.max = 0 \/ s.run < s.max)

\* State after a successfully emitted start/complete packet for passed label
\* L whose wire label type is wl.
\*  - substitution (L full, wl = ru): prev unchanged (= L), run + 1
\*  - explicit re-use passed by the caller: stands for prev; neither counts
\*    nor resets the run (the property speaks of labels the encapsulator
\*    *replaces*)
\*  - broadcast: the next packet must carry its full label -> prev = Broadcast
\*  - full label: prev = L, run = 0
TxAfterStart(s, L, wl) ==
  IF L.k = "ru" THEN s
  ELSE IF L.k = "bc" THEN [s EXCEPT !.prev = Broadcast, !.run = 0]
  ELSE IF wl = "ru" THEN [s EXCEPT !.run = IF s.max = 0 THEN 0 ELSE s.run + 1]   \* only counted against a configured maximum
  ELSE [s EXCEPT !.prev = L, !.run = 0]

TxCfg(s, op, n) ==
  CASE op = "reset"      -> [s EXCEPT !.prev = NoLabel]
    [] op = "disable"    -> [s EXCEPT !.en = FALSE, !.max = 0, !.run = 0]
    [] op = "enable"     -> [s EXCEPT !.en = TRUE, !.max = 0, !.run = 0]
    [] op = "enable_max" -> [s EXCEPT !.en = TRUE, !.max = n, !.run = 0]
    [] OTHER             -> s

\* the label a receiver in lock-step must attribute to a start/complete
\* packet emitted for passed label L (C04)
IntendedLabel(s, L) == IF L.k = "ru" THEN s.prev ELSE L

\* ------------------------------------------------------------- size rules
CompleteHdr(wll, ext) == FixedHdrLen + PtypeLen + wll + ext
FirstHdr(wll, ext)    == FixedHdrLen + FragIdLen + TotalLenLen + PtypeLen + wll + ext
InterHdr              == FixedHdrLen + FragIdLen
EndOverhead           == FixedHdrLen + FragIdLen + CrcLen

\* C01: protocol type, label as written and PDU fit the GSE length and the buffer
CompleteFits(P, wll, ext, B) ==
  /\ PtypeLen + wll + ext + P <= GseLenMax
  /\ B >= CompleteHdr(wll, ext) + P

\* C09: inputs for which encap / encap_ext must return an error
PtypeRejected(T)  == T >= 256 /\ T < 1536
TotalTooLong(P, wll) == P + PtypeLen + wll > TotalLenMax

\* on-wire size of an extension list beyond the type field (which holds the
\* first id): every data block, every further id, and the protocol type
\* unless the last extension is final
RECURSIVE SumExt(_, _)
SumExt(exts, i) == IF i > Len(exts) THEN 0 ELSE 2 + Len(exts[i].data) + SumExt(exts, i + 1)
ExtWireLen(exts, lastFinal) == IF Len(exts) = 0 THEN 0 ELSE SumExt(exts, 1) - (IF lastFinal THEN 2 ELSE 0)

\* C13: combinations encap_ext can encode decodably
ExtEncodable(exts, T) ==
  /\ Len(exts) > 0
  /\ \/ T >= 1536
     \/ T < 256 /\ exts[Len(exts)].id = T
=============================================================================
