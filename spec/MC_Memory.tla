----------------------------- MODULE MC_Memory -----------------------------
(***************************************************************************)
(* C17 as a design check and as a scenario generator (S->I).               *)
(* A caller drives the memory through the five trait operations; buffers   *)
(* it holds are re-provisioned or saved back.  Every step is checked       *)
(* against the relations of GseMemory (the same operators the trace spec   *)
(* evaluates on the real SimpleGseMemory), and the history properties are  *)
(* invariants: conservation of buffers, exactly-the-last-saved-pair.       *)
(* With Export = TRUE every behaviour of length Depth is printed as one    *)
(* scenario line for `gse_harness memops --scn`.                           *)
(***************************************************************************)
EXTENDS GseMemory, TLC, Json, SequencesExt

CONSTANTS Slots, Cap, Size, Ids, MaxBuf, Depth, Export

VARIABLES m,        \* [free, slot] as in GseMemory
          held,     \* sequence of caller-held pairs [tag, hasCtx, id, serial]
          lost,     \* tags dropped by the caller (too small) or by a refused save_frag
          nextTag,  \* next fresh buffer length
          serial,   \* context serial number
          lastSaved,\* ghost: id -> [serial, tag] of the pair last saved under id (or none)
          prev,     \* ghost: memory before the last step
          step,     \* ghost: the last operation with its result
          hist      \* ghost: operation tokens (scenario export)
vars == <<m, held, lost, nextTag, serial, lastSaved, prev, step, hist>>

NoStep == [op |-> "none", id |-> 0, serial |-> 0, tag |-> 0, res |-> "", rtag |-> 0, rserial |-> 0, rid |-> 0]
NoSave == [serial |-> 0, tag |-> 0, valid |-> FALSE]

Init ==
  /\ m = MemInit(Slots) /\ held = <<>> /\ lost = {} /\ nextTag = Size /\ serial = 0
  /\ lastSaved = [i \in Ids |-> NoSave] /\ prev = MemInit(Slots) /\ step = NoStep /\ hist = <<>>

DropAt(s, i) == SubSeq(s, 1, i - 1) \o SubSeq(s, i + 1, Len(s))
RemoveOne(s, x) == LET i == CHOOSE k \in 1..Len(s) : s[k] = x IN DropAt(s, i)
Tok(a, b) == a \o ":" \o ToString(b)
Common(op) == prev' = m /\ hist' = IF Export THEN Append(hist, op) ELSE hist

\* a fresh buffer of sufficient length
ProvisionFresh ==
  /\ nextTag < Size + MaxBuf
  /\ nextTag' = nextTag + 1
  /\ IF Len(m.free) >= Cap
     THEN /\ m' = m /\ held' = Append(held, [tag |-> nextTag, hasCtx |-> FALSE, id |-> 0, serial |-> 0])
          /\ step' = [NoStep EXCEPT !.op = "provision", !.tag = nextTag, !.res = "overflow", !.rtag = nextTag]
     ELSE /\ m' = [m EXCEPT !.free = Append(m.free, nextTag)] /\ held' = held
          /\ step' = [NoStep EXCEPT !.op = "provision", !.tag = nextTag, !.res = "ok"]
  /\ Common("provision:0") /\ UNCHANGED <<lost, serial, lastSaved>>

\* a buffer shorter than the configured size: refused, the caller drops it
ProvisionSmall ==
  /\ m' = m /\ lost' = lost /\ held' = held
  /\ step' = [NoStep EXCEPT !.op = "provision", !.tag = Size - 1, !.res = IF Len(m.free) >= Cap THEN "overflow" ELSE "toosmall", !.rtag = Size - 1]
  /\ Common("provision_small:0") /\ UNCHANGED <<nextTag, serial, lastSaved>>

\* a buffer the caller holds goes back to the free list
Reprovision(k) ==
  /\ k \in 1..Len(held)
  /\ LET t == held[k].tag IN
     IF Len(m.free) >= Cap
     THEN /\ m' = m /\ held' = Append(DropAt(held, k), [held[k] EXCEPT !.hasCtx = FALSE])
          /\ step' = [NoStep EXCEPT !.op = "provision", !.tag = t, !.res = "overflow", !.rtag = t]
     ELSE /\ m' = [m EXCEPT !.free = Append(m.free, t)] /\ held' = DropAt(held, k)
          /\ step' = [NoStep EXCEPT !.op = "provision", !.tag = t, !.res = "ok"]
  /\ Common(Tok("reprovision", k - 1)) /\ UNCHANGED <<lost, nextTag, serial, lastSaved>>

NewPdu ==
  /\ IF Len(m.free) = 0
     THEN m' = m /\ held' = held /\ step' = [NoStep EXCEPT !.op = "new_pdu", !.res = "underflow"]
     ELSE \E t \in Elems(m.free) :
            /\ m' = [m EXCEPT !.free = RemoveOne(m.free, t)]
            /\ held' = Append(held, [tag |-> t, hasCtx |-> FALSE, id |-> 0, serial |-> 0])
            /\ step' = [NoStep EXCEPT !.op = "new_pdu", !.res = "ok", !.rtag = t]
  /\ Common("new_pdu:0") /\ UNCHANGED <<lost, nextTag, serial, lastSaved>>

NewFrag(id) ==
  /\ serial' = serial + 1
  /\ LET s == SlotOf(id, Slots)
         st(res, t) == [NoStep EXCEPT !.op = "new_frag", !.id = id, !.serial = serial + 1, !.res = res, !.rtag = t,
                                      !.rserial = IF res = "ok" THEN serial + 1 ELSE 0]
     IN IF m.slot[s].used
        THEN /\ m' = [m EXCEPT !.slot[s] = EmptySlot]
             /\ held' = Append(held, [tag |-> m.slot[s].tag, hasCtx |-> TRUE, id |-> id, serial |-> serial + 1])
             /\ step' = st("ok", m.slot[s].tag)
             /\ lastSaved' = [lastSaved EXCEPT ![m.slot[s].id] = NoSave]
        ELSE IF Len(m.free) > 0
        THEN \E t \in Elems(m.free) :
               /\ m' = [m EXCEPT !.free = RemoveOne(m.free, t)]
               /\ held' = Append(held, [tag |-> t, hasCtx |-> TRUE, id |-> id, serial |-> serial + 1])
               /\ step' = st("ok", t) /\ lastSaved' = lastSaved
        ELSE m' = m /\ held' = held /\ step' = st("underflow", 0) /\ lastSaved' = lastSaved
  /\ Common(Tok("new_frag", id)) /\ UNCHANGED <<lost, nextTag>>

TakeFrag(id) ==
  /\ LET s == SlotOf(id, Slots) IN
     IF m.slot[s].used /\ m.slot[s].id = id
     THEN /\ m' = [m EXCEPT !.slot[s] = EmptySlot]
          /\ held' = Append(held, [tag |-> m.slot[s].tag, hasCtx |-> TRUE, id |-> id, serial |-> m.slot[s].serial])
          /\ step' = [NoStep EXCEPT !.op = "take_frag", !.id = id, !.res = "ok", !.rtag = m.slot[s].tag,
                                    !.rserial = m.slot[s].serial, !.rid = id]
          /\ lastSaved' = [lastSaved EXCEPT ![id] = NoSave]
     ELSE m' = m /\ held' = held /\ lastSaved' = lastSaved
          /\ step' = [NoStep EXCEPT !.op = "take_frag", !.id = id, !.res = "undefined"]
  /\ Common(Tok("take_frag", id)) /\ UNCHANGED <<lost, nextTag, serial>>

\* save a held pair; a buffer held without context gets a fresh context for id `fid`
SaveFrag(k, fid) ==
  /\ k \in 1..Len(held)
  /\ LET h   == held[k]
         id  == IF h.hasCtx THEN h.id ELSE fid
         ser == IF h.hasCtx THEN h.serial ELSE serial + 1
         s   == SlotOf(id, Slots)
     IN /\ serial' = IF h.hasCtx THEN serial ELSE serial + 1
        /\ held' = DropAt(held, k)
        /\ IF m.slot[s].used
           THEN /\ m' = m /\ lost' = lost \cup {h.tag} /\ lastSaved' = lastSaved
                /\ step' = [NoStep EXCEPT !.op = "save_frag", !.id = id, !.serial = ser, !.tag = h.tag, !.res = "refused"]
           ELSE /\ m' = [m EXCEPT !.slot[s] = [used |-> TRUE, id |-> id, serial |-> ser, tag |-> h.tag]]
                /\ lost' = lost /\ lastSaved' = [lastSaved EXCEPT ![id] = [serial |-> ser, tag |-> h.tag, valid |-> TRUE]]
                /\ step' = [NoStep EXCEPT !.op = "save_frag", !.id = id, !.serial = ser, !.tag = h.tag, !.res = "ok"]
        /\ Common(Tok("save_frag", (k - 1) + 8 * fid))
  /\ UNCHANGED nextTag

Next ==
  \/ ProvisionFresh \/ ProvisionSmall \/ NewPdu
  \/ \E k \in 1..3 : Reprovision(k)
  \/ \E id \in Ids : NewFrag(id) \/ TakeFrag(id)
  \/ \E k \in 1..3, fid \in Ids : SaveFrag(k, fid)

Spec == Init /\ [][Next]_vars

Bounded == serial <= Depth /\ (Export => Len(hist) <= Depth)
\* the ghosts (prev, step, hist) do not influence behaviour: hidden from the fingerprint
View == <<m, held, lost, nextTag, serial, lastSaved>>

\* ------------------------------------------------------------- invariants
\* every step satisfies the trait-contract relation the trace spec checks on the real memory
StepRel ==
  CASE step.op = "provision" -> ProvisionRel(prev, Cap, Size, step.tag, step.tag, step.res, step.rtag, m)
    [] step.op = "new_pdu"   -> NewPduRel(prev, step.res, step.rtag, m)
    [] step.op = "new_frag"  -> NewFragRel(prev, Slots, step.id, step.serial, step.res, step.rtag, step.rserial, m)
    [] step.op = "take_frag" -> TakeFragRel(prev, Slots, step.id, step.res, step.rtag, step.rserial, step.rid, m)
    [] step.op = "save_frag" -> SaveFragRel(prev, Slots, step.id, step.serial, step.tag, step.res, m)
    [] OTHER -> TRUE

\* as an action property, so that it is evaluated on every explored transition
StepAlways == [][StepRel']_vars

AllTags == Size..(nextTag - 1)
SlotTags == {m.slot[s].tag : s \in {x \in DOMAIN m.slot : m.slot[x].used}}
HeldTags == {held[i].tag : i \in 1..Len(held)}
\* every buffer is in exactly one place
Conservation ==
  /\ \A t \in AllTags : CountIn(m.free, t)
                          + Cardinality({s \in DOMAIN m.slot : m.slot[s].used /\ m.slot[s].tag = t})
                          + Cardinality({i \in 1..Len(held) : held[i].tag = t})
                          + (IF t \in lost THEN 1 ELSE 0) = 1
\* take_frag returns exactly the pair last saved under that id
TakeReturnsLastSaved ==
  \A id \in Ids : lastSaved[id].valid =>
     LET s == SlotOf(id, Slots) IN m.slot[s].used /\ m.slot[s].id = id
        /\ m.slot[s].serial = lastSaved[id].serial /\ m.slot[s].tag = lastSaved[id].tag

\* scenario export: one line per behaviour of length Depth
ExportInv == (Export /\ Len(hist) = Depth) => PrintT("SCNLINE " \o ToString(Slots) \o FoldLeft(LAMBDA a, b : a \o " " \o b, "", hist))
=============================================================================
