SPECIFICATION Spec
CONSTANTS
  GseLenMax = 4095
  TotalLenMax = 65535
INVARIANTS Consistent
CHECK_DEADLOCK FALSE
