------------------------------ MODULE GseCrc ------------------------------
(***************************************************************************)
(* CRC-32/MPEG-2 from first principles (C12): polynomial 0x04C11DB7,       *)
(* initial value 0xFFFFFFFF, MSB first, no reflection, no final XOR.       *)
(* TLC integers are 32-bit signed, so the register is a pair <<hi, lo>> of *)
(* 16-bit halves.                                                          *)
(***************************************************************************)
EXTENDS Naturals, Sequences, Bitwise, SequencesExt, TLC

PolyHi == 1217     \* 0x04C1
PolyLo == 7607     \* 0x1DB7
CrcInit == <<65535, 65535>>

\* one bit of polynomial division: shift left, subtract the generator if a 1 fell out
BitStep(r) ==
  LET msb == r[1] \div 32768
      hi  == (r[1] % 32768) * 2 + r[2] \div 32768
      lo  == (r[2] % 32768) * 2
  IN  IF msb = 1 THEN <<hi ^^ PolyHi, lo ^^ PolyLo>> ELSE <<hi, lo>>

Bit8(r) == BitStep(BitStep(BitStep(BitStep(BitStep(BitStep(BitStep(BitStep(r))))))))

\* the definition: feed one byte into the top of the register, divide 8 times
ByteStepBitwise(r, byte) == Bit8(<<r[1] ^^ (byte * 256), r[2]>>)

\* The standard table-driven equivalent.  The table is *derived* from the
\* bitwise definition, not copied from anywhere.  TLC does not cache this
\* definition (the Bitwise operators are RECURSIVE, so SANY gives it no
\* constant level); specs therefore compute it once in Init, keep it in a
\* variable and pass it to the operators below as `tab`.
\* (SubSeq makes TLC materialise the lazy function as an explicit 256-tuple;
\* entry i + 1 holds the remainder for top byte i.)
CrcTable == SubSeq([i \in 1..256 |-> Bit8(<<(i - 1) * 256, 0>>)], 1, 256)

ByteStepTable(tab, r, byte) ==
  LET t == tab[((r[1] \div 256) ^^ byte) + 1]
  IN  << ((r[1] % 256) * 256 + r[2] \div 256) ^^ t[1],
         ((r[2] % 256) * 256) ^^ t[2] >>

CrcFeed(tab, r, bytes)   == FoldLeft(LAMBDA acc, x : ByteStepTable(tab, acc, x), r, bytes)
CrcFeedBitwise(r, bytes) == FoldLeft(ByteStepBitwise, r, bytes)

BE16(v) == <<v \div 256, v % 256>>

\* CRC of  total-length(2, BE) | protocol-type(2, BE) | label bytes | PDU bytes
CrcFields(tab, tl, ptype, labelBytes, pdu) ==
  CrcFeed(tab, CrcFeed(tab, CrcFeed(tab, CrcFeed(tab, CrcInit, BE16(tl)), BE16(ptype)), labelBytes), pdu)

CrcFieldsBitwise(tl, ptype, labelBytes, pdu) ==
  CrcFeedBitwise(CrcFeedBitwise(CrcFeedBitwise(CrcFeedBitwise(CrcInit, BE16(tl)), BE16(ptype)), labelBytes), pdu)

\* the four trailer bytes, big endian, of a register value
CrcBytes(r) == <<r[1] \div 256, r[1] % 256, r[2] \div 256, r[2] % 256>>
CrcOfBytes(b4) == <<b4[1] * 256 + b4[2], b4[3] * 256 + b4[4]>>

\* "123456789" -> 0x0376E6E7
CrcCheckValueOk ==
  CrcFeedBitwise(CrcInit, <<49, 50, 51, 52, 53, 54, 55, 56, 57>>) = <<886, 59111>>
=============================================================================
