SPECIFICATION Spec
CONSTANTS
  GseLenMax = 4095
  TotalLenMax = 65535
INVARIANTS DecodeTotal PaddingExactly EncodeDecode DecodeEncode
CHECK_DEADLOCK FALSE
