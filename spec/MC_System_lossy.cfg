SPECIFICATION Spec
CONSTANTS
  GseLenMax = 4095
  TotalLenMax = 65535
  MaxPdus = 3
  FragIds = {0, 1}
  Slots = 2
  QLen = 2
  Loss = TRUE
  Dup = TRUE
  Maxes = {1}
  Export = FALSE
  Depth = 0
CONSTRAINT Bounded
INVARIANTS OnlySent FragAtMostOnce
CHECK_DEADLOCK FALSE
