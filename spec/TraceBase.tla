----------------------------- MODULE TraceBase -----------------------------
(* Shared by the trace-spec modules: the recorded trace, the PDU registry, *)
(* verdict / non-vacuity helpers.                                          *)
EXTENDS Integers, FiniteSets, Sequences, TLC, Json, IOUtils, GseSender

Rec  == ndJsonDeserialize(IOEnv.TRACE)     \* one record per public call
Pdus == ndJsonDeserialize(IOEnv.PDUS)      \* PDU registry: [len, bytes], referred to by 1-based index
PduBytes(i) == Pdus[i].bytes
PduLen(i)   == Pdus[i].len

\* a false clause yields a verdict tagged with the properties it transcribes
V(cond, props, name) == IF cond THEN {} ELSE {[props |-> props, c |-> name]}
\* non-vacuity: the clause's antecedent held on this event
H(cond, name) == IF cond THEN {name} ELSE {}
Has(r, f) == f \in DOMAIN r

SizeClass(n) ==
  CASE n = 0 -> 0 [] n < 16 -> 1 [] n < 4000 -> 2 [] n <= 4095 -> 3 [] n <= 4097 -> 4
    [] n <= 65535 -> 5 [] OTHER -> 6
PtClass(t) == CASE t < 256 -> 0 [] t < 1536 -> 1 [] OTHER -> 2
=============================================================================
