---------------------------- MODULE GseHeader ----------------------------
(***************************************************************************)
(* Constants of ETSI TS 102 606 and the 16-bit fixed header codec.         *)
(* An independent reading of the standard: S(1) E(1) LT(2) GSE-Length(12). *)
(* Serves C14 directly and every module that parses or builds packets.     *)
(***************************************************************************)
EXTENDS Naturals, Sequences

CONSTANTS GseLenMax,    \* 4095 for the real protocol; small in the `small` model family
          TotalLenMax   \* 65535 for the real protocol

FixedHdrLen == 2
PtypeLen    == 2
FragIdLen   == 1
TotalLenLen == 2
CrcLen      == 4

Kinds      == {"complete", "first", "inter", "end"}
LabelTypes == {"six", "three", "bc", "ru"}

\* start/end bits -> packet kind
KindOfSE(se) == CASE se = 3 -> "complete" [] se = 2 -> "first" [] se = 1 -> "end" [] OTHER -> "inter"
SEOfKind(k)  == CASE k = "complete" -> 3 [] k = "first" -> 2 [] k = "end" -> 1 [] OTHER -> 0

\* label type bits
LtOfCode(c) == CASE c = 0 -> "six" [] c = 1 -> "three" [] c = 2 -> "bc" [] OTHER -> "ru"
CodeOfLt(t) == CASE t = "six" -> 0 [] t = "three" -> 1 [] t = "bc" -> 2 [] OTHER -> 3
LtLen(t)    == CASE t = "six" -> 6 [] t = "three" -> 3 [] OTHER -> 0

\* The padding pattern: start = 0, end = 0, label type = 00 (first nibble zero).
IsPaddingWord(w) == w \div 4096 = 0

\* Decoding is total on 0..65535.  The record always has the same fields so
\* that results can be compared with `=`.
HdrDecode(w) ==
  LET se == w \div 16384
      lc == (w \div 4096) % 4
  IN  [ pad  |-> IsPaddingWord(w),
        kind |-> KindOfSE(se),
        lt   |-> LtOfCode(lc),
        len  |-> w % 4096 ]

HdrEncode(kind, lt, len) == SEOfKind(kind) * 16384 + CodeOfLt(lt) * 4096 + len

\* big-endian 16-bit read at 1-based index i of byte sequence b
U16(b, i) == b[i] * 256 + b[i + 1]

\* TLC (this build) re-evaluates a LET definition at every use and extends the
\* caller's context on every operator call.  With(v, F) evaluates v once and
\* binds the *value*; specs use it for every non-trivial intermediate result.
With(v, F(_)) == CHOOSE r \in {F(x) : x \in {v}} : TRUE

MinI(a, b) == IF a < b THEN a ELSE b
MaxI(a, b) == IF a > b THEN a ELSE b
=============================================================================
