SPECIFICATION Spec
CONSTANTS
  MaxBurst = 8
INVARIANTS TableIsBitwise BurstDetected Misc
CHECK_DEADLOCK FALSE
