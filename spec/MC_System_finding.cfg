SPECIFICATION Spec
CONSTANTS
  GseLenMax = 4095
  TotalLenMax = 65535
  MaxPdus = 3
  FragIds = {0, 1}
  Slots = 2
  QLen = 2
  Loss = TRUE
  Dup = FALSE
  Maxes = {1}
INVARIANTS AttributionUnderLoss
CHECK_DEADLOCK FALSE
