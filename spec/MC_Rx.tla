------------------------------- MODULE MC_Rx -------------------------------
(***************************************************************************)
(* C03 / C07 / C08 / C16 as a design check: the receiver relations (as in  *)
(* TraceRx) over the bundled memory model, under an adversary that may     *)
(* send any packet at any time: complete packets, first / intermediate /   *)
(* end fragments of any PDU on any fragment id (ids that alias a slot      *)
(* included), with matching, stale or junk CRC tags, and provisions.       *)
(*                                                                         *)
(* Payload content is abstract: PDU p is the token train <<p,1>>,..,<<p,N>>*)
(* and the CRC of an end fragment names the train it was computed over (a  *)
(* perfect checksum), so "CRC matches" <=> "the stored tokens are exactly  *)
(* that train".  TLC explores all interleavings, losses, duplications,     *)
(* reorderings and splices the adversary can produce.                      *)
(***************************************************************************)
EXTENDS Naturals, Sequences, FiniteSets, TLC, SequencesExt

CONSTANTS Slots, Cap, Buffers, Ids, PDUs, N, Depth,
          Export       \* TRUE: record the adversary's inputs and print each behaviour of length Depth (S->I)

Train(p) == [k \in 1..N |-> <<p, k>>]
NoCtx == [used |-> FALSE, id |-> 0, buf |-> 0, toks |-> <<>>]
NoG   == [open |-> FALSE, done |-> FALSE, toks |-> <<>>]

VARIABLES st,     \* receiver + memory: [free (set), slot (slot -> context), owned (set, caller's hands)]
          g,      \* C03 ghost per id: tokens of the most recent accepted first fragment and all later fragments
          last,   \* ghost: what the last call did
          depth,
          hist    \* ghost (Export only): the adversary's inputs as scenario tokens for `gse_harness rxscn --scn`
vars == <<st, g, last, depth, hist>>
Rec(tok) == hist' = IF Export THEN Append(hist, tok) ELSE hist
T2(a, b) == a \o ":" \o ToString(b)
ExportInv == (Export /\ Len(hist) = Depth) => PrintT("SCNLINE " \o ToString(Slots) \o FoldLeft(LAMBDA a, b : a \o " " \o b, "", hist))

SlotOf(id) == id % Slots

\* ------------------------------------------------ receiver as functions
Res(s, t, d) == [st |-> s, t |-> t, deliv |-> d]       \* t: "completed" | "fragmented" | "rejected"

RxComplete(s) ==
  IF s.free = {} THEN Res(s, "rejected", <<>>)
  ELSE LET b == CHOOSE x \in s.free : TRUE
       IN Res([s EXCEPT !.free = s.free \ {b}, !.owned = s.owned \cup {b}], "completed", <<<<0, 0>>>>)

RxFirst(s, id, p) ==
  LET k == SlotOf(id) IN
  IF s.slot[k].used
  THEN Res([s EXCEPT !.slot[k] = [used |-> TRUE, id |-> id, buf |-> s.slot[k].buf, toks |-> <<<<p, 1>>>>]], "fragmented", <<>>)
  ELSE IF s.free # {}
  THEN LET b == CHOOSE x \in s.free : TRUE
       IN Res([s EXCEPT !.free = s.free \ {b},
                        !.slot[k] = [used |-> TRUE, id |-> id, buf |-> b, toks |-> <<<<p, 1>>>>]], "fragmented", <<>>)
  ELSE Res(s, "rejected", <<>>)

RxInter(s, id, tok) ==
  LET k == SlotOf(id) IN
  IF s.slot[k].used /\ s.slot[k].id = id /\ Len(s.slot[k].toks) < N + 1
  THEN Res([s EXCEPT !.slot[k].toks = Append(s.slot[k].toks, tok)], "fragmented", <<>>)
  ELSE IF s.slot[k].used /\ s.slot[k].id = id
  THEN \* does not fit the storage any more: context dropped, buffer given back (or handed out when the free list is full)
       Res([s EXCEPT !.slot[k] = NoCtx,
                     !.free = IF Cardinality(s.free) < Cap THEN s.free \cup {s.slot[k].buf} ELSE s.free,
                     !.owned = IF Cardinality(s.free) < Cap THEN s.owned ELSE s.owned \cup {s.slot[k].buf}], "rejected", <<>>)
  ELSE Res(s, "rejected", <<>>)

\* crc: the PDU whose train the CRC was computed over, or 0 for junk
RxEnd(s, id, tok, crc) ==
  LET k == SlotOf(id) IN
  IF s.slot[k].used /\ s.slot[k].id = id
  THEN LET all == Append(s.slot[k].toks, tok)
           ok  == crc \in PDUs /\ all = Train(crc)          \* length check and CRC check
       IN IF ok
          THEN Res([s EXCEPT !.slot[k] = NoCtx, !.owned = s.owned \cup {s.slot[k].buf}], "completed", all)
          ELSE Res([s EXCEPT !.slot[k] = NoCtx,
                             !.free = IF Cardinality(s.free) < Cap THEN s.free \cup {s.slot[k].buf} ELSE s.free,
                             !.owned = IF Cardinality(s.free) < Cap THEN s.owned ELSE s.owned \cup {s.slot[k].buf}],
                   "rejected", <<>>)
  ELSE Res(s, "rejected", <<>>)

Provision(s, b) ==
  IF Cardinality(s.free) < Cap THEN [s EXCEPT !.free = s.free \cup {b}, !.owned = s.owned \ {b}] ELSE s

\* ------------------------------------------------------------- behaviour
Init ==
  /\ st = [free |-> {}, slot |-> [k \in 0..(Slots - 1) |-> NoCtx], owned |-> Buffers]
  /\ g = [i \in Ids |-> NoG] /\ last = [t |-> "none", id |-> 0, deliv |-> <<>>, wasDone |-> FALSE, gtoks |-> <<>>, gopen |-> FALSE, pre |-> st]
  /\ depth = 0 /\ hist = <<>>

Mark(r, id, wasDone, gt, go) ==
  last' = [t |-> r.t, id |-> id, deliv |-> r.deliv, wasDone |-> wasDone, gtoks |-> gt, gopen |-> go, pre |-> st]

DoProvision == \E b \in st.owned : st' = Provision(st, b) /\ g' = g /\ depth' = depth + 1
                                   /\ last' = [last EXCEPT !.t = "provision", !.deliv = <<>>, !.pre = st]
                                   /\ Rec("provision:0")

DoComplete == LET r == RxComplete(st) IN st' = r.st /\ g' = g /\ depth' = depth + 1 /\ Mark(r, 0, FALSE, <<>>, FALSE)
                                         /\ Rec("complete:0")

DoFirst(id, p) ==
  LET r == RxFirst(st, id, p) IN
  /\ st' = r.st /\ depth' = depth + 1
  /\ g' = IF r.t = "fragmented" THEN [g EXCEPT ![id] = [open |-> TRUE, done |-> FALSE, toks |-> <<<<p, 1>>>>]] ELSE g
  /\ Mark(r, id, FALSE, <<>>, FALSE) /\ Rec(T2(T2("first", id), p))

DoInter(id, p, k) ==
  LET r == RxInter(st, id, <<p, k>>) IN
  /\ st' = r.st /\ depth' = depth + 1
  /\ g' = IF g[id].open /\ Len(g[id].toks) <= N THEN [g EXCEPT ![id].toks = Append(g[id].toks, <<p, k>>)] ELSE g
  /\ Mark(r, id, FALSE, <<>>, FALSE) /\ Rec(T2(T2(T2("inter", id), p), k))

DoEnd(id, p, k, crc) ==
  LET r  == RxEnd(st, id, <<p, k>>, crc)
      gt == Append(g[id].toks, <<p, k>>)
  IN /\ st' = r.st /\ depth' = depth + 1
     /\ g' = IF g[id].open
             THEN [g EXCEPT ![id] = [open |-> ~(r.t = "completed"), done |-> (r.t = "completed"),
                                     toks |-> IF Len(gt) <= N + 1 THEN gt ELSE g[id].toks]]
             ELSE g
     /\ Mark(r, id, g[id].done, gt, g[id].open) /\ Rec(T2(T2(T2(T2("end", id), p), k), crc))

Garbage == st' = st /\ g' = g /\ depth' = depth + 1 /\ last' = [last EXCEPT !.t = "garbage", !.deliv = <<>>, !.pre = st]
           /\ Rec("garbage:0")

Next ==
  \/ DoProvision \/ DoComplete \/ Garbage
  \/ \E id \in Ids, p \in PDUs : DoFirst(id, p)
  \/ \E id \in Ids, p \in PDUs, k \in 2..N : DoInter(id, p, k)
  \/ \E id \in Ids, p \in PDUs, k \in 2..N, c \in PDUs \cup {0} : DoEnd(id, p, k, c)

Spec == Init /\ [][Next]_vars
Bounded == depth <= Depth
View == <<st, g>>

\* ------------------------------------------------------------ invariants
SlotBufs(s) == {s.slot[k].buf : k \in {x \in DOMAIN s.slot : s.slot[x].used}}
\* C08: every buffer is in exactly one place
Conservation ==
  /\ st.free \cup SlotBufs(st) \cup st.owned = Buffers
  /\ st.free \cap SlotBufs(st) = {} /\ st.free \cap st.owned = {} /\ SlotBufs(st) \cap st.owned = {}
  /\ Cardinality(SlotBufs(st)) = Cardinality({x \in DOMAIN st.slot : st.slot[x].used})

\* C16: from every reachable state, once one more buffer `bx` is made available (or the free list is
\* full), a complete packet and a fragmented PDU on any id are delivered
ProbeState == [st EXCEPT !.free = IF Cardinality(st.free) < Cap THEN st.free \cup {99} ELSE st.free]
Recovers ==
  /\ RxComplete(ProbeState).t = "completed"
  /\ \A id \in Ids, p \in PDUs :
       LET s1 == RxFirst(ProbeState, id, p)
           s2 == RxInter(s1.st, id, <<p, 2>>)
           s3 == RxEnd(s2.st, id, <<p, N>>, p)
       IN s1.t = "fragmented" /\ (N = 3 => s2.t = "fragmented" /\ s3.t = "completed" /\ s3.deliv = Train(p))

\* on every explored transition:
\* C03: a PDU is delivered at an end fragment only if the tokens of the most recent accepted first fragment of
\*      that id and of all later fragments of that id, in arrival order, are exactly the train the CRC names
DeliverOnlyVerified ==
  last.t = "completed" /\ last.id \in Ids /\ last.deliv # <<<<0, 0>>>> =>
     last.gopen /\ last.deliv = last.gtoks /\ \E p \in PDUs : last.deliv = Train(p)
\* C07 / C02: never a second delivery for the same train
ExactlyOnce == last.t = "completed" /\ last.deliv # <<<<0, 0>>>> => ~last.wasDone
\* C07: a packet of another id that is not a slot-claiming first fragment leaves every open context untouched
OthersUntouched ==
  \A k \in DOMAIN last.pre.slot :
     last.pre.slot[k].used /\ last.t \in {"completed", "fragmented", "rejected", "garbage"}
       /\ last.pre.slot[k].id # last.id
       /\ ~(last.t = "fragmented" /\ SlotOf(last.id) = k /\ st.slot[k].id = last.id /\ Len(st.slot[k].toks) = 1)
     => st.slot[k] = last.pre.slot[k]
StepAlways == [][DeliverOnlyVerified' /\ ExactlyOnce' /\ OthersUntouched']_vars
=============================================================================
