------------------------------- MODULE MC_Rx -------------------------------
(***************************************************************************)
(* C03 / C07 / C08 / C16 as a design check: the receiver relations (as in  *)
(* TraceRx) over the bundled memory model, under an adversary that may     *)
(* send any packet at any time: complete packets, first / intermediate /   *)
(* end fragments of any PDU on any fragment id (ids that alias a slot      *)
(* included), with matching, stale or junk CRC tags, and provisions.       *)
(*                                                                         *)
(* Payload content is abstract: PDU p is the token train <<p,1>>,..,<<p,N>>*)
(* and the CRC of an end fragment names the train it was computed over (a  *)
(* perfect checksum), so "CRC matches" <=> "the stored tokens are exactly  *)
(* that train".  TLC explores all interleavings, losses, duplications,     *)
(* reorderings and splices the adversary can produce.                      *)
(***************************************************************************)
EXTENDS Naturals, Sequences, FiniteSets, TLC, SequencesExt

CONSTANTS Slots, Cap, Buffers, Ids, PDUs, N, Depth,
          Faults,      \* memory failures the environment may inject into one call (C08): subset of
                       \* {"none", "new", "take", "save", "prov", "provc"}; {"none"} = a memory that never fails by itself
          Export       \* TRUE: record the adversary's inputs and print each behaviour of length Depth (S->I)

Train(p) == [k \in 1..N |-> <<p, k>>]
NoCtx == [used |-> FALSE, id |-> 0, buf |-> 0, toks |-> <<>>]
NoG   == [open |-> FALSE, done |-> FALSE, toks |-> <<>>]

VARIABLES st,     \* receiver + memory: [free (set), slot (slot -> context), owned (set, caller's hands),
                  \*   limbo (set): buffers a failing memory kept when it answered MemoryCorrupted to save_frag / provision]
          g,      \* C03 ghost per id: tokens of the most recent accepted first fragment and all later fragments
          last,   \* ghost: what the last call did
          depth,
          hist    \* ghost (Export only): the adversary's inputs as scenario tokens for `gse_harness rxscn --scn`
vars == <<st, g, last, depth, hist>>
Rec(tok) == hist' = IF Export THEN Append(hist, tok) ELSE hist
T2(a, b) == a \o ":" \o ToString(b)
ExportInv == (Export /\ Len(hist) = Depth) => PrintT("SCNLINE " \o ToString(Slots) \o FoldLeft(LAMBDA a, b : a \o " " \o b, "", hist))

SlotOf(id) == id % Slots

\* ------------------------------------------------ receiver as functions
Res(s, t, d) == [st |-> s, t |-> t, deliv |-> d]       \* t: "completed" | "fragmented" | "rejected"

\* give a buffer back on an error exit: the memory takes it, or refuses it (free list full, or injected
\* "prov") and the buffer leaves in the error value, or swallows it while answering MemoryCorrupted ("provc")
GiveBack(s, b, f) ==
  IF f = "provc" THEN [s EXCEPT !.limbo = s.limbo \cup {b}]
  ELSE IF f = "prov" \/ Cardinality(s.free) >= Cap THEN [s EXCEPT !.owned = s.owned \cup {b}]
  ELSE [s EXCEPT !.free = s.free \cup {b}]

\* ok = FALSE: a complete packet that is rejected after its buffer was taken (unresolvable re-use label,
\* PDU larger than the buffer ...)
RxComplete(s, ok, f) ==
  IF s.free = {} \/ f = "new" THEN Res(s, "rejected", <<>>)
  ELSE LET b == CHOOSE x \in s.free : TRUE
           s1 == [s EXCEPT !.free = s.free \ {b}]
       IN IF ok THEN Res([s1 EXCEPT !.owned = s.owned \cup {b}], "completed", <<<<0, 0>>>>)
          ELSE Res(GiveBack(s1, b, f), "rejected", <<>>)

RxFirst(s, id, p, f) ==
  LET k == SlotOf(id)
      ctx(b) == [used |-> TRUE, id |-> id, buf |-> b, toks |-> <<<<p, 1>>>>]
      \* save_frag fails: the memory keeps the buffer, the slot stays empty (new_frag emptied it)
      saved(s1, b) == IF f = "save" THEN Res([s1 EXCEPT !.slot[k] = NoCtx, !.limbo = s1.limbo \cup {b}], "rejected", <<>>)
                      ELSE Res([s1 EXCEPT !.slot[k] = ctx(b)], "fragmented", <<>>)
  IN
  IF f = "new" THEN Res(s, "rejected", <<>>)
  ELSE IF s.slot[k].used THEN saved(s, s.slot[k].buf)
  ELSE IF s.free # {}
  THEN LET b == CHOOSE x \in s.free : TRUE IN saved([s EXCEPT !.free = s.free \ {b}], b)
  ELSE Res(s, "rejected", <<>>)

RxInter(s, id, tok, f) ==
  LET k == SlotOf(id) IN
  IF f = "take" THEN Res(s, "rejected", <<>>)
  ELSE IF s.slot[k].used /\ s.slot[k].id = id /\ Len(s.slot[k].toks) < N + 1
  THEN IF f = "save" THEN Res([s EXCEPT !.slot[k] = NoCtx, !.limbo = s.limbo \cup {s.slot[k].buf}], "rejected", <<>>)
       ELSE Res([s EXCEPT !.slot[k].toks = Append(s.slot[k].toks, tok)], "fragmented", <<>>)
  ELSE IF s.slot[k].used /\ s.slot[k].id = id
  THEN \* does not fit the storage any more: context dropped, buffer given back (or handed out when the free list is full)
       Res(GiveBack([s EXCEPT !.slot[k] = NoCtx], s.slot[k].buf, f), "rejected", <<>>)
  ELSE Res(s, "rejected", <<>>)

\* crc: the PDU whose train the CRC was computed over, or 0 for junk
RxEnd(s, id, tok, crc, f) ==
  LET k == SlotOf(id) IN
  IF f = "take" THEN Res(s, "rejected", <<>>)
  ELSE IF s.slot[k].used /\ s.slot[k].id = id
  THEN LET all == Append(s.slot[k].toks, tok)
           ok  == crc \in PDUs /\ all = Train(crc)          \* length check and CRC check
       IN IF ok
          THEN Res([s EXCEPT !.slot[k] = NoCtx, !.owned = s.owned \cup {s.slot[k].buf}], "completed", all)
          ELSE Res(GiveBack([s EXCEPT !.slot[k] = NoCtx], s.slot[k].buf, f), "rejected", <<>>)
  ELSE Res(s, "rejected", <<>>)

Provision(s, b) ==
  IF Cardinality(s.free) < Cap THEN [s EXCEPT !.free = s.free \cup {b}, !.owned = s.owned \ {b}] ELSE s

\* ------------------------------------------------------------- behaviour
Init ==
  /\ st = [free |-> {}, slot |-> [k \in 0..(Slots - 1) |-> NoCtx], owned |-> Buffers, limbo |-> {}]
  /\ g = [i \in Ids |-> NoG] /\ last = [t |-> "none", id |-> 0, deliv |-> <<>>, wasDone |-> FALSE, gtoks |-> <<>>, gopen |-> FALSE, pre |-> st, claimed |-> -1]
  /\ depth = 0 /\ hist = <<>>

MarkC(r, id, wasDone, gt, go, c) ==
  last' = [t |-> r.t, id |-> id, deliv |-> r.deliv, wasDone |-> wasDone, gtoks |-> gt, gopen |-> go, pre |-> st, claimed |-> c]
Mark(r, id, wasDone, gt, go) == MarkC(r, id, wasDone, gt, go, -1)

DoProvision == \E b \in st.owned : st' = Provision(st, b) /\ g' = g /\ depth' = depth + 1
                                   /\ last' = [last EXCEPT !.t = "provision", !.deliv = <<>>, !.pre = st, !.claimed = -1]
                                   /\ Rec("provision:0")

FTok(tok, f) == IF f = "none" THEN tok ELSE tok \o ":F" \o f
DoComplete(ok, f) ==
  LET r == RxComplete(st, ok, f) IN st' = r.st /\ g' = g /\ depth' = depth + 1 /\ Mark(r, 0, FALSE, <<>>, FALSE)
                                    /\ Rec(FTok(IF ok THEN "complete:0" ELSE "badcomplete:0", f))

\* ghost under an injected failure: a call cut short before anything changed ("new", "take") counts as a packet
\* lost before the receiver; a failed save closes the train (the memory swallowed the context)
DoFirst(id, p, f) ==
  LET r == RxFirst(st, id, p, f) IN
  /\ st' = r.st /\ depth' = depth + 1
  /\ g' = IF r.t = "fragmented" THEN [g EXCEPT ![id] = [open |-> TRUE, done |-> FALSE, toks |-> <<<<p, 1>>>>]]
          ELSE IF f = "save" THEN [g EXCEPT ![id] = NoG] ELSE g
  \* the slot is claimed as soon as new_frag succeeded, even if saving the new context fails afterwards
  /\ MarkC(r, id, FALSE, <<>>, FALSE, IF f # "new" /\ (st.slot[SlotOf(id)].used \/ st.free # {}) THEN SlotOf(id) ELSE -1)
  /\ Rec(FTok(T2(T2("first", id), p), f))

DoInter(id, p, k, f) ==
  LET r == RxInter(st, id, <<p, k>>, f) IN
  /\ st' = r.st /\ depth' = depth + 1
  /\ g' = IF f = "take" THEN g
          ELSE IF f = "save" /\ r.t = "rejected" /\ st.slot[SlotOf(id)].used /\ st.slot[SlotOf(id)].id = id THEN [g EXCEPT ![id] = NoG]
          ELSE IF g[id].open /\ Len(g[id].toks) <= N THEN [g EXCEPT ![id].toks = Append(g[id].toks, <<p, k>>)] ELSE g
  /\ Mark(r, id, FALSE, <<>>, FALSE) /\ Rec(FTok(T2(T2(T2("inter", id), p), k), f))

DoEnd(id, p, k, crc, f) ==
  LET r  == RxEnd(st, id, <<p, k>>, crc, f)
      gt == Append(g[id].toks, <<p, k>>)
  IN /\ st' = r.st /\ depth' = depth + 1
     /\ g' = IF f = "take" THEN g
             ELSE IF g[id].open
             THEN [g EXCEPT ![id] = [open |-> ~(r.t = "completed"), done |-> (r.t = "completed"),
                                     toks |-> IF Len(gt) <= N + 1 THEN gt ELSE g[id].toks]]
             ELSE g
     /\ Mark(r, id, g[id].done, gt, g[id].open) /\ Rec(FTok(T2(T2(T2(T2("end", id), p), k), crc), f))

Garbage == st' = st /\ g' = g /\ depth' = depth + 1 /\ last' = [last EXCEPT !.t = "garbage", !.deliv = <<>>, !.pre = st, !.claimed = -1]
           /\ Rec("garbage:0")

Next ==
  \/ DoProvision \/ Garbage
  \/ \E ok \in BOOLEAN, f \in Faults \cap {"none", "new", "prov", "provc"} : DoComplete(ok, f)
  \/ \E id \in Ids, p \in PDUs, f \in Faults \cap {"none", "new", "save"} : DoFirst(id, p, f)
  \/ \E id \in Ids, p \in PDUs, k \in 2..N, f \in Faults \cap {"none", "take", "save", "prov", "provc"} : DoInter(id, p, k, f)
  \/ \E id \in Ids, p \in PDUs, k \in 2..N, c \in PDUs \cup {0}, f \in Faults \cap {"none", "take", "prov", "provc"} : DoEnd(id, p, k, c, f)

Spec == Init /\ [][Next]_vars
Bounded == depth <= Depth
View == <<st, g>>

\* ------------------------------------------------------------ invariants
SlotBufs(s) == {s.slot[k].buf : k \in {x \in DOMAIN s.slot : s.slot[x].used}}
\* C08: every buffer is in exactly one place
Conservation ==
  /\ st.free \cup SlotBufs(st) \cup st.owned \cup st.limbo = Buffers
  /\ st.free \cap SlotBufs(st) = {} /\ st.free \cap st.owned = {} /\ SlotBufs(st) \cap st.owned = {}
  /\ st.limbo \cap (st.free \cup SlotBufs(st) \cup st.owned) = {}
  /\ (Faults \subseteq {"none", "new", "take", "prov"} => st.limbo = {})     \* nothing is ever swallowed unless the memory says MemoryCorrupted
  /\ Cardinality(SlotBufs(st)) = Cardinality({x \in DOMAIN st.slot : st.slot[x].used})

\* C16: from every reachable state, once one more buffer `bx` is made available (or the free list is
\* full), a complete packet and a fragmented PDU on any id are delivered
ProbeState == [st EXCEPT !.free = IF Cardinality(st.free) < Cap THEN st.free \cup {99} ELSE st.free]
Recovers ==
  /\ RxComplete(ProbeState, TRUE, "none").t = "completed"
  /\ \A id \in Ids, p \in PDUs :
       LET s1 == RxFirst(ProbeState, id, p, "none")
           s2 == RxInter(s1.st, id, <<p, 2>>, "none")
           s3 == RxEnd(s2.st, id, <<p, N>>, p, "none")
       IN s1.t = "fragmented" /\ (N = 3 => s2.t = "fragmented" /\ s3.t = "completed" /\ s3.deliv = Train(p))

\* on every explored transition:
\* C03: a PDU is delivered at an end fragment only if the tokens of the most recent accepted first fragment of
\*      that id and of all later fragments of that id, in arrival order, are exactly the train the CRC names
DeliverOnlyVerified ==
  last.t = "completed" /\ last.id \in Ids /\ last.deliv # <<<<0, 0>>>> =>
     last.gopen /\ last.deliv = last.gtoks /\ \E p \in PDUs : last.deliv = Train(p)
\* C07 / C02: never a second delivery for the same train
ExactlyOnce == last.t = "completed" /\ last.deliv # <<<<0, 0>>>> => ~last.wasDone
\* C07: a packet of another id that is not a slot-claiming first fragment leaves every open context untouched
OthersUntouched ==
  \A k \in DOMAIN last.pre.slot :
     last.pre.slot[k].used /\ last.t \in {"completed", "fragmented", "rejected", "garbage"}
       /\ last.pre.slot[k].id # last.id
       /\ ~(last.t = "fragmented" /\ SlotOf(last.id) = k /\ st.slot[k].id = last.id /\ Len(st.slot[k].toks) = 1)
       /\ last.claimed # k
     => st.slot[k] = last.pre.slot[k]
StepAlways == [][DeliverOnlyVerified' /\ ExactlyOnce' /\ OthersUntouched']_vars
=============================================================================
