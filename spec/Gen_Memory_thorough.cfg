SPECIFICATION Spec
CONSTANTS
  Slots = 2
  Cap = 4
  Size = 16
  Ids = {0, 1, 2}
  MaxBuf = 4
  Depth = 4
  Export = TRUE
CONSTRAINT Bounded
INVARIANTS ExportInv
CHECK_DEADLOCK FALSE
