----------------------------- MODULE MC_Header -----------------------------
(* C14, exhaustively: one state per 16-bit word and per (kind, label type,  *)
(* length) triple; the invariants are the three sentences of the property. *)
EXTENDS GseHeader, TLC

VARIABLE x
Words   == [tag : {"word"}, w : 0..65535]
Triples == [tag : {"triple"}, kind : Kinds, lt : LabelTypes, len : 0..4095]

Init == x \in Words \cup Triples
Stay == x' = x
Spec == Init /\ [][Stay]_x

\* reading any word never fails and yields a well-typed result
DecodeTotal ==
  x.tag = "word" => LET d == HdrDecode(x.w) IN d.kind \in Kinds /\ d.lt \in LabelTypes /\ d.len \in 0..4095

\* no packet exactly for the padding pattern: start = 0, end = 0, label type 00
PaddingExactly ==
  x.tag = "word" => LET d == HdrDecode(x.w) IN d.pad <=> (d.kind = "inter" /\ d.lt = "six")

\* for every other word, re-encoding the decoded triple reproduces the word
EncodeDecode ==
  x.tag = "word" => LET d == HdrDecode(x.w) IN ~d.pad => HdrEncode(d.kind, d.lt, d.len) = x.w

\* conversely, for every non-padding triple, decoding the encoded header returns the triple
DecodeEncode ==
  x.tag = "triple" /\ ~(x.kind = "inter" /\ x.lt = "six") =>
     LET d == HdrDecode(HdrEncode(x.kind, x.lt, x.len))
     IN  ~d.pad /\ d.kind = x.kind /\ d.lt = x.lt /\ d.len = x.len
=============================================================================
