SPECIFICATION Spec
CONSTANTS
  MaxBurst = 11
INVARIANTS TableIsBitwise BurstDetected Misc
CHECK_DEADLOCK FALSE
