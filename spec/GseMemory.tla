----------------------------- MODULE GseMemory -----------------------------
(***************************************************************************)
(* The GseDecapMemory trait contract as honoured by the bundled memory     *)
(* (C17): a bag of free buffers plus at most one saved context per slot.   *)
(* Buffers are identified by a tag; a context by (frag id, serial).        *)
(* Which free buffer is handed out is left open (bag semantics).           *)
(* The slot of a fragment id is id % slots (documented limitation of the   *)
(* bundled memory).  Relations: pre-state, arguments, result, post-state.  *)
(***************************************************************************)
EXTENDS Naturals, Sequences, FiniteSets

EmptySlot == [used |-> FALSE, id |-> 0, serial |-> 0, tag |-> 0]
MemInit(slots) == [free |-> <<>>, slot |-> [s \in 0..(slots - 1) |-> EmptySlot]]

SlotOf(id, slots) == id % slots

CountIn(s, x) == Cardinality({i \in 1..Len(s) : s[i] = x})
Elems(s) == {s[i] : i \in 1..Len(s)}
BagEq(a, b) == Len(a) = Len(b) /\ \A x \in Elems(a) \cup Elems(b) : CountIn(a, x) = CountIn(b, x)
\* b = a with one occurrence of x removed / added
BagMinus(a, x, b) == Len(b) + 1 = Len(a) /\ CountIn(a, x) = CountIn(b, x) + 1
                     /\ \A y \in (Elems(a) \cup Elems(b)) \ {x} : CountIn(a, y) = CountIn(b, y)
BagPlus(a, x, b) == BagMinus(b, x, a)

SameMem(m, m2) == BagEq(m.free, m2.free) /\ m.slot = m2.slot

\* provisioning fails, handing the same buffer back, iff the free list is full
\* or the buffer is smaller than the configured PDU size
ProvisionRel(m, cap, size, tag, len, res, back, m2) ==
  IF Len(m.free) >= cap \/ len < size
  THEN res \in {"overflow", "toosmall"} /\ back = tag /\ SameMem(m, m2)
       /\ (res = "toosmall" => len < size) /\ (res = "overflow" => Len(m.free) >= cap)
  ELSE res = "ok" /\ BagPlus(m.free, tag, m2.free) /\ m.slot = m2.slot

\* taking a PDU buffer fails only when no buffer is free
NewPduRel(m, res, rtag, m2) ==
  IF Len(m.free) = 0 THEN res = "underflow" /\ SameMem(m, m2)
  ELSE res = "ok" /\ rtag \in Elems(m.free) /\ BagMinus(m.free, rtag, m2.free) /\ m.slot = m2.slot

\* starting a fragment replaces the slot's previous context re-using its buffer,
\* otherwise takes a free buffer; the context handed back is the one passed in
NewFragRel(m, slots, id, serial, res, rtag, rserial, m2) ==
  LET s == SlotOf(id, slots) IN
  IF m.slot[s].used
  THEN res = "ok" /\ rtag = m.slot[s].tag /\ rserial = serial
       /\ BagEq(m.free, m2.free) /\ m2.slot = [m.slot EXCEPT ![s] = EmptySlot]
  ELSE IF Len(m.free) > 0
  THEN res = "ok" /\ rtag \in Elems(m.free) /\ rserial = serial
       /\ BagMinus(m.free, rtag, m2.free) /\ m2.slot = m.slot
  ELSE res = "underflow" /\ SameMem(m, m2)

\* taking a fragment returns exactly the pair last saved under that id and
\* otherwise reports an undefined id leaving the memory unchanged
TakeFragRel(m, slots, id, res, rtag, rserial, rid, m2) ==
  LET s == SlotOf(id, slots) IN
  IF m.slot[s].used /\ m.slot[s].id = id
  THEN res = "ok" /\ rtag = m.slot[s].tag /\ rserial = m.slot[s].serial /\ rid = id
       /\ BagEq(m.free, m2.free) /\ m2.slot = [m.slot EXCEPT ![s] = EmptySlot]
  ELSE res = "undefined" /\ SameMem(m, m2)

\* saving into an occupied slot is refused
SaveFragRel(m, slots, id, serial, tag, res, m2) ==
  LET s == SlotOf(id, slots) IN
  IF m.slot[s].used THEN res = "refused" /\ SameMem(m, m2)
  ELSE res = "ok" /\ BagEq(m.free, m2.free)
       /\ m2.slot = [m.slot EXCEPT ![s] = [used |-> TRUE, id |-> id, serial |-> serial, tag |-> tag]]
=============================================================================
