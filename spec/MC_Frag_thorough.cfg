SPECIFICATION Spec
CONSTANTS
  GseLenMax = 31
  TotalLenMax = 63
  ExtLens = {0, 2, 10}
  PduLens = {0,1,2,3,4,5,6,7,8,9,10,11,12,13,14,15,16,17,18,19,20,21,22,23,24,25,26,27,28,29,30,31,32,33,34,35,36,37,38,39,40,41,42,43,44,45,46,47,48,49,50,51,52,53,54,55,56,57,58,59,60,61,62,63,64}
  Bufs = {0,1,2,3,4,5,6,7,8,9,10,11,12,13,14,15,16,17,18,19,20,21,22,23,24,25,26,27,28,29,30,31,32,33,34,35,36,37,38,39,40}
  AllFills = TRUE
  MaxCalls = 100
VIEW View
PROPERTY PacketsAlways
INVARIANTS DeliveredOnce Buf13Accepted Buf7Accepted ProgressBound
CHECK_DEADLOCK FALSE
