SPECIFICATION Spec
CONSTANTS
  Slots = 2
  Cap = 2
  Buffers = {1, 2}
  Ids = {0, 1, 2}
  PDUs = {1, 2}
  N = 3
  Depth = 9
  Faults = {"none"}
  Export = TRUE
CONSTRAINT Bounded
INVARIANTS ExportInv
CHECK_DEADLOCK FALSE
