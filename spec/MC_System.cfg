SPECIFICATION Spec
CONSTANTS
  GseLenMax = 4095
  TotalLenMax = 65535
  MaxPdus = 3
  FragIds = {0, 1}
  Slots = 2
  QLen = 2
  Loss = FALSE
  Dup = FALSE
  Maxes = {1}
  Export = FALSE
  Depth = 0
INVARIANTS OnlySent AtMostOnce FragAtMostOnce AttributionInOrder Complete
CHECK_DEADLOCK FALSE
