------------------------------ MODULE TraceTab ------------------------------
(***************************************************************************)
(* Trace-spec judges for function tables and stand-alone components:       *)
(* fixed-header codec (C14), Extension::new (C13), DefaultCrc vectors      *)
(* (C12), utils packet structs (C20), memory-trait operations (C17).       *)
(***************************************************************************)
EXTENDS TraceBase, GseMemory

TabInit == [hdrNext |-> 0, encCount |-> 0, extNext |-> [d \in 0..10 |-> 0],
            mm |-> MemInit(1), slots |-> 1, cap |-> 0, size |-> 0]

TabBegin(e) ==
  IF Has(e, "mem")
  THEN [TabInit EXCEPT !.mm = MemInit(e.mem.slots), !.slots = e.mem.slots, !.cap = e.mem.cap, !.size = e.mem.pdu_size]
  ELSE TabInit

\* ------------------------------------------------------------------- C14
JudgeHdrDec(e, tb) ==
  LET okRun == \A w \in e.from..e.to :
                  LET d == HdrDecode(w) IN
                  IF e.cls = "none" THEN d.pad
                  ELSE ~d.pad /\ d.kind = e.cls /\ d.lt = e.lt /\ d.len = e.len0 + (w - e.from)
  IN [ bad |-> V(e.cls # "panic", <<"C14">>, "Hdr.DecodeTotal")
            \cup V(e.cls # "panic" => okRun, <<"C14">>, "Hdr.DecodeMatchesSpec")
            \cup V(e.from = tb.hdrNext, <<"C14">>, "Hdr.TableContiguous"),
       hits |-> H(TRUE, "Hdr.DecodeTotal") \cup H(TRUE, "Hdr.DecodeMatchesSpec") \cup H(e.cls = "none", "Hdr.PaddingRun")
                \cup H(TRUE, "Hdr.TableContiguous"),
       tb |-> [tb EXCEPT !.hdrNext = e.to + 1],
       cls |-> <<"hdr_dec", e.cls, e.lt>>, weight |-> e.to - e.from + 1 ]

JudgeHdrEnc(e, tb) ==
  LET \* a run that starts at a word no header can be records a panic of the encoder (or no such kind at all)
      valid == e.w0 + (e.len_to - e.len_from) <= 65535
      okRun == valid /\ \A n \in e.len_from..e.len_to : HdrEncode(e.kind, e.lt, n) = e.w0 + (n - e.len_from)
      \* decoding the encoded word gives the triple back, except for the padding pattern
      back  == valid /\ \A n \in e.len_from..e.len_to :
                  LET d == HdrDecode(e.w0 + (n - e.len_from)) IN
                  IF e.kind = "inter" /\ e.lt = "six" THEN d.pad
                  ELSE ~d.pad /\ d.kind = e.kind /\ d.lt = e.lt /\ d.len = n
  IN [ bad |-> V(okRun, <<"C14">>, "Hdr.EncodeMatchesSpec") \cup V(back, <<"C14">>, "Hdr.DecodeOfEncode"),
       hits |-> H(TRUE, "Hdr.EncodeMatchesSpec") \cup H(TRUE, "Hdr.DecodeOfEncode"),
       tb |-> [tb EXCEPT !.encCount = tb.encCount + (e.len_to - e.len_from + 1)],
       cls |-> <<"hdr_enc", e.kind, e.lt>>, weight |-> e.len_to - e.len_from + 1 ]

\* ------------------------------------------------------------------- C13
JudgeExtNew(e, tb) ==
  LET okRun == \A id \in e.from..e.to : (e.res = "ok") = ExtNewOk(id, e.dlen)
  IN [ bad |-> V(e.res # "panic", <<"C13">>, "ExtNew.NoPanic")
            \cup V(e.res \notin {"panic"} => okRun, <<"C13">>, "ExtNew.OkIffContract")
            \cup V(e.res # "ok_but_differs", <<"C13">>, "ExtNew.EchoesIdAndData")
            \cup V(e.from = tb.extNext[e.dlen], <<"C13">>, "ExtNew.TableContiguous"),
       hits |-> H(TRUE, "ExtNew.NoPanic") \cup H(TRUE, "ExtNew.OkIffContract") \cup H(e.res = "ok", "ExtNew.EchoesIdAndData")
                \cup H(TRUE, "ExtNew.TableContiguous"),
       tb |-> [tb EXCEPT !.extNext[e.dlen] = e.to + 1],
       cls |-> <<"ext_new", e.dlen, e.res>>, weight |-> e.to - e.from + 1 ]

\* ------------------------------------------------------------------- C12
JudgeCrcVec(e, crc) ==
  [ bad |-> V(~e.panic, <<"C12">>, "Crc.NoPanic") \cup V(~e.panic => e.res = crc.val, <<"C12">>, "Crc.IsMpeg2OverFields"),
    hits |-> H(TRUE, "Crc.NoPanic") \cup H(~e.panic, "Crc.IsMpeg2OverFields"),
    cls |-> <<"crc_vec", Len(e.label), IF e.pdu_ref > 0 THEN 99 ELSE Len(e.pdu), e.tl % 7, e.ptype % 5>> ]

\* ------------------------------------------------------------------- C20
DescOfParse(h, w, p) ==
  [ gse_len |-> h.len,
    fragid |-> IF h.kind = "complete" THEN 0 ELSE w.fragId,
    tl |-> IF h.kind = "first" THEN w.tl ELSE 0,
    ptype |-> IF h.kind \in {"complete", "first"} THEN w.ptype0 ELSE 0,
    label |-> IF h.kind \in {"complete", "first"} THEN [k |-> h.lt, b |-> w.label] ELSE ReUseL,
    pdu |-> Payload(p, w),
    crc |-> IF h.kind = "end" THEN w.crc ELSE ZeroCrc ]

PktOfDesc(kind, d) ==
  [ kind |-> kind, lt |-> d.label.k, fragId |-> d.fragid, tl |-> d.tl, ptype0 |-> d.ptype,
    label |-> d.label.b, chain |-> <<>>, payload |-> d.pdu, crc |-> d.crc ]

JudgeUtilsRt(e) ==
  LET b == e.bytes
      delim == Classify(b) = "delim" /\ Len(b) = (U16(b, 1) % 4096) + 2
      h == IF delim THEN HdrDecode(U16(b, 1)) ELSE HdrDecode(0)
      noExt == delim /\ (h.kind \in {"inter", "end"} \/ (Len(b) >= (IF h.kind = "first" THEN 7 ELSE 4) /\ U16(b, IF h.kind = "first" THEN 6 ELSE 3) >= 1536))
      view == IF noExt THEN Parse(b, NoMgr) ELSE PBad(h, "skip")
  IN With(view, LAMBDA w :
       LET wf == noExt /\ w.ok
       IN [ bad |-> V(e.t # "panic", <<"C20">>, "Utils.NoPanic")
                 \cup V(wf => e.t \in {"ok", "opaque"}, <<"C20">>, "Utils.ParsesWellFormed")
                 \cup V(wf /\ e.t = "opaque" => e.regen = b, <<"C20">>, "Utils.GenerateInvertsParse")
                 \cup V(wf /\ e.t = "ok" => e.desc = DescOfParse(h, w, b), <<"C20">>, "Utils.ParseAgreesWithCodec")
                 \cup V(wf /\ e.t = "ok" => e.regen = b, <<"C20">>, "Utils.GenerateInvertsParse")
                 \cup V(wf /\ e.t = "ok" => e.regen = SerializePkt(PktOfDesc(h.kind, e.desc)), <<"C20">>, "Utils.GenerateIsSerialize")
                 \* the bytes are "exactly the bytes" of the packet: nothing is written beyond them
                 \cup V(e.t \in {"ok", "opaque"} /\ Has(e, "tail_ok") => e.tail_ok, <<"C20">>, "Utils.GenerateWritesOnlyThePacket"),
            hits |-> H(TRUE, "Utils.NoPanic") \cup H(wf, "Utils.ParsesWellFormed") \cup H(wf /\ e.t = "ok", "Utils.ParseAgreesWithCodec")
                 \cup H(wf /\ e.t = "ok", "Utils.GenerateInvertsParse") \cup H(wf /\ e.t = "ok", "Utils.GenerateIsSerialize")
                 \cup H(wf /\ e.src = "encap", "Utils.SameAsEncap")
                 \cup H(e.t \in {"ok", "opaque"} /\ Has(e, "tail_ok"), "Utils.GenerateWritesOnlyThePacket"),
            cls |-> <<"utils_rt", e.src, h.kind, h.lt, SizeClass(Len(b))>> ])

JudgeUtilsGen(e) ==
  LET d == e.desc
      consistent == ~e.panic /\ d.gse_len = Len(e.bytes) - 2
  IN [ bad |-> V(~e.panic, <<"C20">>, "Utils.GenNoPanic")
            \cup V(consistent => e.bytes = SerializePkt(PktOfDesc(d.kind, d)), <<"C20">>, "Utils.SyntheticGenerateIsSerialize")
            \cup V(~e.panic /\ Has(e, "tail_ok") => e.tail_ok, <<"C20">>, "Utils.GenerateWritesOnlyThePacket"),
       hits |-> H(TRUE, "Utils.GenNoPanic") \cup H(consistent, "Utils.SyntheticGenerateIsSerialize")
                \cup H(~e.panic /\ Has(e, "tail_ok"), "Utils.GenerateWritesOnlyThePacket"),
       cls |-> <<"utils_gen", IF e.panic THEN "panic" ELSE d.kind, IF e.panic THEN "-" ELSE d.label.k, SizeClass(Len(e.bytes))>> ]

\* ------------------------------------------------------------------- C17
MemOfProjection(pm, slots) ==
  [ free |-> pm.free,
    slot |-> [s \in 0..(slots - 1) |->
                LET c == {i \in 1..Len(pm.ctxs) : pm.ctxs[i].id % slots = s}
                IN IF c = {} THEN EmptySlot
                   ELSE LET i == CHOOSE k \in c : TRUE
                        IN [used |-> TRUE, id |-> pm.ctxs[i].id, serial |-> pm.ctxs[i].pdu_len, tag |-> pm.ctxs[i].tag]] ]

JudgeMemOp(e, tb) ==
  LET m  == tb.mm
      m2 == MemOfProjection(e.mem, tb.slots)
      rel == CASE e.opk = "provision" -> ProvisionRel(m, tb.cap, tb.size, e.tag, e.tag, e.res, e.rtag, m2)
               [] e.opk = "new_pdu"   -> NewPduRel(m, e.res, e.rtag, m2)
               [] e.opk = "new_frag"  -> NewFragRel(m, tb.slots, e.id, e.serial, e.res, e.rtag, e.rserial, m2)
               [] e.opk = "take_frag" -> TakeFragRel(m, tb.slots, e.id, e.res, e.rtag, e.rserial, e.rid, m2)
               [] e.opk = "save_frag" -> SaveFragRel(m, tb.slots, e.id, e.serial, e.tag, e.res, m2)
               [] OTHER -> TRUE
      oneCtxPerSlot == \A s \in 0..(tb.slots - 1) : Cardinality({i \in 1..Len(e.mem.ctxs) : e.mem.ctxs[i].id % tb.slots = s}) <= 1
  IN [ bad |-> V(e.res # "panic" /\ e.mem.ok, <<"C17">>, "Mem.NoPanic")
            \cup V(e.res # "panic" /\ e.mem.ok => rel, <<"C17">>, "Mem." \o e.opk)
            \cup V(e.mem.ok => oneCtxPerSlot, <<"C17">>, "Mem.OneContextPerSlot")
            \cup V(e.content_ok, <<"C17">>, "Mem.ContentsUntouched"),
       hits |-> H(TRUE, "Mem.NoPanic") \cup H(e.res # "panic" /\ e.mem.ok, "Mem." \o e.opk)
            \cup H(e.res \notin {"ok", "panic"}, "Mem." \o e.opk \o ".refused") \cup H(TRUE, "Mem.ContentsUntouched")
            \cup H(e.mem.ok /\ Len(e.mem.ctxs) > 0, "Mem.OneContextPerSlot"),
       tb |-> [tb EXCEPT !.mm = IF e.mem.ok THEN m2 ELSE m],
       cls |-> <<"mem_op", e.opk, e.res, Len(m.free), Cardinality({s \in DOMAIN m.slot : m.slot[s].used})>> ]
=============================================================================
