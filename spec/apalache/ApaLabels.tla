----------------------------- MODULE ApaLabels -----------------------------
(***************************************************************************)
(* Optional extra (Apalache, symbolic): the label machine of MC_Labels     *)
(* with an *unbounded* maximum N.  Labels are integers: 1..4 full labels,  *)
(* -1 broadcast, -2 explicit re-use, 0 "none".  IndInv is inductive:       *)
(*   Init => IndInv           (length 0)                                   *)
(*   IndInv /\ Next => IndInv' (length 1, from IndInit == IndInv)          *)
(* Its core: the receiver's remembered label, if any, is the label the     *)
(* sender's previous start/complete packet stood for - hence no            *)
(* mis-attribution (ok) - and the run of substitutions never exceeds the   *)
(* configured maximum, for every natural N.                                *)
(***************************************************************************)
EXTENDS Integers

CONSTANT
  \* @type: Int;
  N

VARIABLES
  \* @type: Bool;
  en,
  \* @type: Int;
  max,
  \* @type: Int;
  run,
  \* @type: Int;
  prev,
  \* @type: Int;
  rl,
  \* @type: Bool;
  ok

ConstInit == N \in Nat

Full == 1..4
Init == en = TRUE /\ max = 0 /\ run = 0 /\ prev = 0 /\ rl = 0 /\ ok = TRUE

SubstAllowed(L) == en /\ L \in Full /\ prev = L /\ (max = 0 \/ run < max)

\* a successful start/complete packet for passed label L (full, -1 broadcast, -2 explicit re-use)
Send(L, sub, starved) ==
  /\ sub => SubstAllowed(L)
  /\ LET wire  == IF sub THEN -2 ELSE L
         deliv == ~starved /\ (wire # -2 \/ rl \in Full)
         got   == IF wire = -2 THEN rl ELSE wire
         want  == IF L = -2 THEN prev ELSE L
     IN /\ ok' = (deliv => got = want)
        /\ prev' = IF L = -2 THEN prev ELSE L
        /\ run' = IF sub THEN (IF max = 0 THEN 0 ELSE run + 1) ELSE IF L = -2 THEN run ELSE 0
        /\ rl' \in (IF starved
                    THEN (IF wire = -2 THEN {rl, 0} ELSE IF wire = -1 THEN {0} ELSE {0, wire})
                    ELSE IF ~deliv THEN {0}
                    ELSE IF wire = -1 THEN {0}
                    ELSE IF wire = -2 THEN {rl}
                    ELSE {wire})
  /\ UNCHANGED <<en, max>>

Other == rl' \in {rl, 0} /\ ok' = TRUE /\ UNCHANGED <<en, max, run, prev>>
Fail  == ok' = TRUE /\ UNCHANGED <<en, max, run, prev, rl>>
ResetBoth == prev' = 0 /\ rl' = 0 /\ ok' = TRUE /\ UNCHANGED <<en, max, run>>
Disable   == en' = FALSE /\ max' = 0 /\ run' = 0 /\ ok' = TRUE /\ UNCHANGED <<prev, rl>>
EnableMax == en' = TRUE /\ max' = N /\ run' = 0 /\ ok' = TRUE /\ UNCHANGED <<prev, rl>>
Enable    == en' = TRUE /\ max' = 0 /\ run' = 0 /\ ok' = TRUE /\ UNCHANGED <<prev, rl>>

Next ==
  \/ \E L \in {1, 2, 3, 4, -1, -2} : \E sub \in BOOLEAN : \E starved \in BOOLEAN : Send(L, sub, starved)
  \/ Other \/ Fail \/ ResetBoth \/ Disable \/ EnableMax \/ Enable

IndInv ==
  /\ max >= 0 /\ run >= 0
  /\ prev \in {0, -1, 1, 2, 3, 4}
  /\ rl \in {0, 1, 2, 3, 4}
  /\ (rl # 0 => rl = prev)            \* the receiver never remembers anything but the sender's previous label
  /\ (max > 0 => run <= max)          \* C15 for every natural maximum
  /\ ok                               \* C04: no delivery is ever mis-attributed

IndInit ==
  /\ en \in BOOLEAN /\ max \in Nat /\ run \in Nat
  /\ prev \in {0, -1, 1, 2, 3, 4} /\ rl \in {0, 1, 2, 3, 4} /\ ok \in BOOLEAN
  /\ IndInv
=============================================================================
