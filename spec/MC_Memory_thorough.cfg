SPECIFICATION Spec
CONSTANTS
  Slots = 2
  Cap = 3
  Size = 16
  Ids = {0, 1, 2, 3}
  MaxBuf = 4
  Depth = 4
  Export = FALSE
CONSTRAINT Bounded
VIEW View
INVARIANTS Conservation TakeReturnsLastSaved
PROPERTY StepAlways
CHECK_DEADLOCK FALSE
