------------------------------ MODULE MC_Wire ------------------------------
(***************************************************************************)
(* Self-consistency of the wire reading the other modules rely on, over a  *)
(* small but complete family of packet descriptions (every kind, label     *)
(* type, extension-chain shape, payload length 0..3, several tails):       *)
(*  - Parse inverts SerializePkt (C06, C20), also with bytes following the *)
(*    packet (C10: a delimited packet does not depend on its tail)         *)
(*  - no serialised packet reads as padding (C10)                          *)
(*  - the extension walker recovers exactly the chain that was written,    *)
(*    stops with "unknown_mandatory" at an unknown mandatory id and never  *)
(*    accepts a truncated chain (C13)                                      *)
(*  - the peek expectation is the label / frag id of the parse (C19)       *)
(***************************************************************************)
EXTENDS GseWire, TLC

VARIABLE x

Payloads == {<<>>, <<7>>, <<1, 2>>, <<0, 0, 0>>}
Tails    == {<<>>, <<0>>, <<0, 0>>, <<255, 255, 255>>, <<192, 2, 8, 0>>}
Labels   == [six |-> <<1, 2, 3, 4, 5, 6>>, three |-> <<9, 8, 7>>, bc |-> <<>>, ru |-> <<>>]

\* manager: 0x42 non-final 1 byte, 0x43 final 1 byte; 0x55 is unknown
Mgr == (66 :> [final |-> FALSE, size |-> 1]) @@ (67 :> [final |-> TRUE, size |-> 1])
Ext(c) == CASE c = "o0" -> [id |-> 256 + 17, data |-> <<>>]
            [] c = "o2" -> [id |-> 512 + 1,  data |-> <<10, 11>>]
            [] c = "o8" -> [id |-> 1280 + 9, data |-> <<1, 2, 3, 4, 5, 6, 7, 8>>]
            [] c = "mn" -> [id |-> 66, data |-> <<33>>]
            [] c = "mf" -> [id |-> 67, data |-> <<44>>]
            [] OTHER    -> [id |-> 85, data |-> <<>>]          \* "mu": unknown mandatory
NonFinal == {"o0", "o2", "o8", "mn"}
Chains == {<<>>} \cup {<<a>> : a \in NonFinal \cup {"mf", "mu"}}
          \cup {<<a, b>> : a \in NonFinal, b \in NonFinal \cup {"mf", "mu"}}
          \cup {<<a, b, c>> : a \in {"o2", "mn"}, b \in {"o0", "mn", "mu"}, c \in {"o8", "mf"}}

Descs == [kind : Kinds, lt : LabelTypes, fragId : {0, 5, 255}, chain : Chains, payload : Payloads, tail : Tails, cut : 0..3]

Init == x \in Descs
Spec == Init /\ [][x' = x]_x

ExtsOf(ch) == [i \in 1..Len(ch) |-> Ext(ch[i])]
LastFinal(ch) == Len(ch) > 0 /\ ch[Len(ch)] = "mf"
HasUnknown(ch) == \E i \in 1..Len(ch) : ch[i] = "mu"
Ptype(ch) == IF LastFinal(ch) THEN 67 ELSE 2048
IsStart(d) == d.kind \in {"complete", "first"}

PktOf(d) ==
  LET ch == IF IsStart(d) THEN d.chain ELSE <<>>
      ex == ExtsOf(ch)
  IN [ kind |-> d.kind, lt |-> IF IsStart(d) THEN d.lt ELSE "ru", fragId |-> d.fragId, tl |-> 300,
       ptype0 |-> IF Len(ex) > 0 THEN ex[1].id ELSE 2048,
       label |-> IF IsStart(d) THEN Labels[d.lt] ELSE <<>>,
       chain |-> IF Len(ex) > 0 THEN ExtChainBytes(ex, Ptype(ch), LastFinal(ch)) ELSE <<>>,
       payload |-> IF d.kind = "inter" /\ d.payload = <<>> THEN <<1>> ELSE d.payload,
       crc |-> <<4660, 22136>> ]

Good(d) ==
  LET pk == PktOf(d)
      b  == SerializePkt(pk)
      ch == IF IsStart(d) THEN d.chain ELSE <<>>
      w  == Parse(b, Mgr)
      fr == b \o d.tail
  IN /\ Len(b) = (U16(b, 1) % 4096) + 2
     /\ ~IsPaddingWord(U16(b, 1))                                         \* never reads as padding
     /\ Classify(fr) = "delim" /\ Delimited(fr) = b                      \* the tail does not matter
     /\ IF HasUnknown(ch) THEN ~w.ok /\ w.why = "unknown_mandatory"
        ELSE /\ w.ok /\ w.kind = pk.kind /\ w.lt = pk.lt
             /\ Payload(b, w) = pk.payload
             /\ (IsStart(d) => w.label = pk.label /\ w.ptype0 = pk.ptype0 /\ w.exts = ExtsOf(ch) /\ w.ptype = Ptype(ch))
             /\ (d.kind # "complete" => w.fragId = pk.fragId)
             /\ (d.kind = "first" => w.tl = 300)
             /\ (d.kind = "end" => w.crc = pk.crc)
             /\ PeekExpect(w) = (IF ~IsStart(d) THEN [t |-> "fragid", id |-> pk.fragId, lt |-> "ru", b |-> <<>>]
                                 ELSE IF pk.lt = "ru" THEN [t |-> "reuse", id |-> 0, lt |-> "ru", b |-> <<>>]
                                 ELSE [t |-> "label", id |-> 0, lt |-> pk.lt, b |-> pk.label])
     \* a chain cut short (gse_len reduced by 1..3 inside the chain area, payload empty) is never accepted as the same chain
     /\ (IsStart(d) /\ d.cut > 0 /\ Len(ch) > 0 /\ ~HasUnknown(ch) /\ d.payload = <<>> /\ d.cut <= Len(pk.chain) =>
           LET n2 == Len(b) - d.cut
               b2 == BE16(HdrEncode(pk.kind, pk.lt, n2 - 2)) \o SubSeq(b, 3, n2)
               w2 == Parse(b2, Mgr)
           IN ~w2.ok \/ w2.exts # ExtsOf(ch) \/ w2.ptype # Ptype(ch))

Consistent == Good(x)
=============================================================================
