SPECIFICATION FairSpec
CONSTANTS
  GseLenMax = 15
  TotalLenMax = 31
  ExtLens = {0, 4}
  PduLens = {0,1,5,12,13,14,20,29,30,31,32}
  Bufs = {0,3,6,7,12,13,14,17,22}
  AllFills = FALSE
  MaxCalls = 100
PROPERTY Completes
CHECK_DEADLOCK FALSE
