SPECIFICATION Spec
CONSTANTS
  Slots = 2
  Cap = 2
  Buffers = {1, 2}
  Ids = {0, 1, 2}
  PDUs = {1, 2}
  N = 3
  Depth = 6
  Faults = {"none"}
  Export = FALSE
CONSTRAINT Bounded
VIEW View
INVARIANTS Conservation Recovers
PROPERTY StepAlways
CHECK_DEADLOCK FALSE
