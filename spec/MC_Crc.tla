------------------------------- MODULE MC_Crc -------------------------------
(***************************************************************************)
(* C12: checks *inside* the specification that the CRC oracle is what it   *)
(* claims to be.                                                           *)
(*  - the table-driven step (used on long inputs) equals the bitwise       *)
(*    definition for every byte value from a family of register states     *)
(*  - the check value of "123456789" is 0x0376E6E7                         *)
(*  - field order: CrcFields is the CRC of tl(2) | ptype(2) | label | pdu  *)
(*  - C03 sanity: every burst of up to MaxBurst bits at every offset of a  *)
(*    12-byte message changes the CRC (the general statement, bursts <= 32,*)
(*    is a theorem about a degree-32 generator with non-zero constant term)*)
(***************************************************************************)
EXTENDS GseCrc, Naturals

CONSTANTS MaxBurst

VARIABLES tab, x
vars == <<tab, x>>

Regs == {<<0, 0>>, <<65535, 65535>>, <<32768, 1>>, <<1, 32768>>, <<4660, 22136>>, <<43981, 61185>>, <<255, 65280>>, <<1217, 7607>>}
Msg  == <<0, 35, 8, 0, 1, 2, 3, 222, 173, 190, 239, 90>>      \* tl | ptype | 3-byte label | 5-byte pdu

Pow2(n) == IF n = 0 THEN 1 ELSE IF n = 1 THEN 2 ELSE IF n = 2 THEN 4 ELSE IF n = 3 THEN 8 ELSE IF n = 4 THEN 16
           ELSE IF n = 5 THEN 32 ELSE IF n = 6 THEN 64 ELSE IF n = 7 THEN 128 ELSE IF n = 8 THEN 256 ELSE IF n = 9 THEN 512 ELSE 1024

\* bursts: offset o (bit index from the MSB of byte 1), width w, inner pattern pat (w - 2 free bits; both ends set)
Bursts == {b \in [o : 0..95, w : 1..MaxBurst, pat : 0..(Pow2(MaxBurst - 2) - 1)] :
             b.o + b.w <= 96 /\ b.pat < (IF b.w <= 2 THEN 1 ELSE Pow2(b.w - 2))}

Init == tab = CrcTable /\ x \in [t : {"step"}, r : Regs, b : 0..255] \cup [t : {"burst"}, e : Bursts] \cup {[t |-> "misc"]}
Spec == Init /\ [][UNCHANGED vars]_vars

\* bit i (0-based from the burst start) of the error pattern
ErrBit(e, i) == IF i = 0 \/ i = e.w - 1 THEN 1 ELSE (e.pat \div Pow2(i - 1)) % 2
\* the message with the burst applied
Flip(e) ==
  [k \in 1..12 |->
     LET mask == LET S[j \in 0..8] == IF j = 8 THEN 0
                                     ELSE LET bit == (k - 1) * 8 + j
                                              on  == bit >= e.o /\ bit < e.o + e.w /\ ErrBit(e, bit - e.o) = 1
                                          IN (IF on THEN Pow2(7 - j) ELSE 0) + S[j + 1]
                 IN S[0]
     IN Msg[k] ^^ mask]

TableIsBitwise == x.t = "step" => ByteStepTable(tab, x.r, x.b) = ByteStepBitwise(x.r, x.b)
BurstDetected  == x.t = "burst" => CrcFeed(tab, CrcInit, Flip(x.e)) # CrcFeed(tab, CrcInit, Msg)
Misc == x.t = "misc" =>
  /\ CrcCheckValueOk
  /\ CrcFeed(tab, CrcInit, <<49, 50, 51, 52, 53, 54, 55, 56, 57>>) = <<886, 59111>>
  /\ CrcFields(tab, 35, 2048, <<1, 2, 3>>, <<222, 173, 190, 239, 90>>) = CrcFeedBitwise(CrcInit, Msg)
  /\ CrcFieldsBitwise(35, 2048, <<1, 2, 3>>, <<222, 173, 190, 239, 90>>) = CrcFeedBitwise(CrcInit, Msg)
  /\ CrcBytes(<<886, 59111>>) = <<3, 118, 230, 231>> /\ CrcOfBytes(<<3, 118, 230, 231>>) = <<886, 59111>>
=============================================================================
