SPECIFICATION Spec
CONSTANTS
  GseLenMax = 4095
  TotalLenMax = 65535
  Maxes = {0, 1, 2, 3, 255}
  OutOfStep = TRUE
  Export = FALSE
  Depth = 0
VIEW View
INVARIANTS TypeOK Attribution AttributionOutOfStep ResolveNearest DisabledNeverSubstitutes MaxRespected FullAfterClear SubstituteOnlySame
CHECK_DEADLOCK FALSE
