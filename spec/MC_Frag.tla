------------------------------ MODULE MC_Frag ------------------------------
(***************************************************************************)
(* C01 / C02 / C06 / C11 as a design check: a sender that obeys only the   *)
(* per-step clauses (how many payload bytes a fragment takes is free, as   *)
(* long as the clauses hold), an arbitrary schedule of buffer sizes, and a *)
(* receiver with sufficient storage.  TLC explores every schedule and every*)
(* admissible sender choice and shows that the history properties follow:  *)
(* payload windows partition the PDU, the PDU is delivered exactly once at *)
(* the end packet, any buffer >= 13 (first call) / >= 7 (continuation) is  *)
(* accepted, and the chain finishes within remaining + 1 such calls.       *)
(* Instantiated for the `small` family (all lengths) and for the `real`    *)
(* constants over the boundary lattice.                                    *)
(***************************************************************************)
EXTENDS GseSender, TLC

CONSTANTS ExtLens,      \* on-wire sizes of the extension area explored (0 = plain encap; > 0 = encap_ext, C13)
          PduLens,      \* set of PDU lengths explored
          Bufs,         \* set of buffer sizes a schedule may offer
          AllFills,     \* TRUE: a fragment may take any admissible number of bytes; FALSE: only 1 or the maximum
          MaxCalls      \* bound on successful calls per chain (state constraint for the real family)

VARIABLES phase,     \* "idle" | "frag" | "done"
          P, wll,    \* PDU length; length of the label as written in the first packet (0, 3, 6)
          ext,       \* bytes of extension headers between label and payload in the first / complete packet
          sent,      \* sender context: payload bytes carried so far
          rxLen,     \* receiver context: payload bytes stored so far
          delivered, \* completed PDUs delivered by the receiver
          calls,     \* successful calls so far
          calls7,    \* successful continuation calls made with a buffer >= 7
          rem0,      \* bytes remaining right after the first fragment
          pkt        \* ghost: last emitted packet [kind, gseLen, len, buf, from, n]
vars == <<phase, P, wll, ext, sent, rxLen, delivered, calls, calls7, rem0, pkt>>

NoPkt == [kind |-> "none", gseLen |-> 0, len |-> 0, buf |-> 0, from |-> 0, n |-> 0]

Init ==
  /\ phase = "idle" /\ P \in PduLens /\ wll \in {0, 3, 6} /\ ext \in ExtLens
  /\ sent = 0 /\ rxLen = 0 /\ delivered = 0 /\ calls = 0 /\ calls7 = 0 /\ rem0 = 0 /\ pkt = NoPkt

FirstFixed == FragIdLen + TotalLenLen + PtypeLen     \* 5 bytes of a first fragment counted by GSE length besides label and payload

Fills(maxn, minn) ==
  IF maxn < minn THEN {}
  ELSE IF AllFills THEN minn..maxn ELSE {minn, maxn}

\* ---------------------------------------------------------------- first call
EncapReject(B) ==       \* C09: PDU exceeding the 16-bit total length
  /\ phase = "idle" /\ TotalTooLong(P, wll)
  /\ pkt' = NoPkt /\ UNCHANGED <<phase, P, wll, ext, sent, rxLen, delivered, calls, calls7, rem0>>

EncapComplete(B) ==     \* C01: must complete whenever it fits
  /\ phase = "idle" /\ ~TotalTooLong(P, wll) /\ CompleteFits(P, wll, ext, B)
  /\ pkt' = [kind |-> "complete", gseLen |-> PtypeLen + wll + ext + P, len |-> CompleteHdr(wll, ext) + P, buf |-> B, from |-> 0, n |-> P]
  /\ phase' = "done" /\ sent' = P /\ rxLen' = P /\ delivered' = delivered + 1 /\ calls' = calls + 1
  /\ UNCHANGED <<P, wll, ext, calls7, rem0>>

EncapFirst(B) ==
  /\ phase = "idle" /\ ~TotalTooLong(P, wll) /\ ~CompleteFits(P, wll, ext, B)
  /\ B >= FirstHdr(wll, ext)
  /\ \E n \in Fills(MinI(P, MinI(B - FirstHdr(wll, ext), GseLenMax - FirstFixed - wll - ext)), 0) :
     /\ pkt' = [kind |-> "first", gseLen |-> FirstFixed + wll + ext + n, len |-> FirstHdr(wll, ext) + n, buf |-> B, from |-> 0, n |-> n]
     /\ phase' = "frag" /\ sent' = n /\ rxLen' = n /\ rem0' = P - n /\ calls' = calls + 1
     /\ UNCHANGED <<P, wll, ext, delivered, calls7>>

EncapTooSmall(B) ==     \* only buffers below 13 bytes may be refused as too small (C02)
  /\ phase = "idle" /\ ~TotalTooLong(P, wll) /\ ~CompleteFits(P, wll, ext, B) /\ B < 13 + ext
  /\ pkt' = NoPkt /\ UNCHANGED <<phase, P, wll, ext, sent, rxLen, delivered, calls, calls7, rem0>>

\* ------------------------------------------------------------- continuation
FragEnd(B) ==
  /\ phase = "frag"
  /\ B >= EndOverhead + (P - sent) /\ FragIdLen + (P - sent) + CrcLen <= GseLenMax
  /\ pkt' = [kind |-> "end", gseLen |-> FragIdLen + (P - sent) + CrcLen, len |-> EndOverhead + (P - sent), buf |-> B,
             from |-> sent, n |-> P - sent]
  \* the receiver delivers iff the stored length plus this payload is the announced total (and the CRC matches:
  \* with consecutive windows of one PDU it does)
  /\ delivered' = IF rxLen + (P - sent) = P THEN delivered + 1 ELSE delivered
  /\ phase' = "done" /\ sent' = P /\ rxLen' = rxLen + (P - sent) /\ calls' = calls + 1
  /\ calls7' = IF B >= 7 THEN calls7 + 1 ELSE calls7
  /\ UNCHANGED <<P, wll, ext, rem0>>

FragInter(B) ==
  /\ phase = "frag"
  /\ \E n \in Fills(MinI(P - sent, MinI(B - InterHdr, GseLenMax - FragIdLen)), 1) :    \* C11: at least one byte
     /\ pkt' = [kind |-> "inter", gseLen |-> FragIdLen + n, len |-> InterHdr + n, buf |-> B, from |-> sent, n |-> n]
     /\ sent' = sent + n /\ rxLen' = rxLen + n /\ calls' = calls + 1
     /\ calls7' = IF B >= 7 THEN calls7 + 1 ELSE calls7
     /\ UNCHANGED <<phase, P, wll, ext, delivered, rem0>>

FragTooSmall(B) ==      \* only buffers below 7 bytes may be refused (C11)
  /\ phase = "frag" /\ B < 7
  /\ pkt' = NoPkt /\ UNCHANGED <<phase, P, wll, ext, sent, rxLen, delivered, calls, calls7, rem0>>

Next ==
  \E B \in Bufs :
     \/ EncapReject(B) \/ EncapComplete(B) \/ EncapTooSmall(B) \/ FragEnd(B) \/ FragTooSmall(B)
     \/ EncapFirst(B) \/ FragInter(B)

Spec == Init /\ [][Next]_vars
\* a buffer of at least 13 bytes is offered again and again
FairSpec == Spec /\ WF_vars(\E B \in {b \in Bufs : b >= 13 + ext} :
                              EncapComplete(B) \/ FragEnd(B) \/ EncapFirst(B) \/ FragInter(B))

Bounded == calls <= MaxCalls
\* ghosts hidden from the fingerprint: the last packet, and (in the small family) the call counter
View == <<phase, P, wll, ext, sent, rxLen, delivered, calls7, rem0, IF MaxCalls < 100 THEN calls ELSE 0>>

\* ------------------------------------------------------------- invariants
\* C06: every emitted packet is length-accurate and fits
WellSized == pkt.kind # "none" => pkt.gseLen <= GseLenMax /\ pkt.len = pkt.gseLen + FixedHdrLen /\ pkt.len <= pkt.buf
\* C11: the payload windows are consecutive from 0; sender and receiver agree
Partition == sent = rxLen /\ sent <= P /\ (pkt.kind \in {"first", "inter", "end"} => pkt.from + pkt.n = sent)
\* both as action properties: evaluated on every explored transition although pkt is not in the VIEW
PacketsAlways == [][WellSized' /\ Partition']_vars
\* C01 / C02: delivered exactly once, at the completed status, with the whole PDU
DeliveredOnce == IF phase = "done" THEN delivered = 1 /\ rxLen = P ELSE delivered = 0
\* C02: no buffer of 13 bytes or more is refused on the first call (unless the PDU must be rejected)
Buf13Accepted == phase = "idle" /\ ~TotalTooLong(P, wll) =>
                   \A B \in {b \in Bufs : b >= 13 + ext} : CompleteFits(P, wll, ext, B) \/ B >= FirstHdr(wll, ext)
\* C11: no buffer of 7 bytes or more is refused by a continuation call
Buf7Accepted == phase = "frag" =>
                   \A B \in {b \in Bufs : b >= 7} :
                      \/ (B >= EndOverhead + (P - sent) /\ FragIdLen + (P - sent) + CrcLen <= GseLenMax)
                      \/ MinI(P - sent, MinI(B - InterHdr, GseLenMax - FragIdLen)) >= 1
\* C11: after the first fragment, buffers >= 7 finish the PDU within remaining + 1 calls
ProgressBound == calls7 <= rem0 + 1
\* C02, liveness: with buffers >= 13 offered again and again every acceptable PDU completes
Completes == <>(phase = "done" \/ TotalTooLong(P, wll))
=============================================================================
