----------------------------- MODULE TraceGse -----------------------------
(***************************************************************************)
(* Trace specification (I->S binding).  TLC replays a trace recorded from  *)
(* the real crate, one event per public call, advances the abstract state  *)
(* of GseSender / the receiver model (TraceRx) and evaluates every         *)
(* property clause on every step.  It is a *monitor*: a false clause does  *)
(* not stop the replay, it adds a verdict tagged with the property ids     *)
(* whose text the clause transcribes, so the rest of the trace is still    *)
(* examined.  The spec is deterministic: one successor per recorded line.  *)
(*                                                                         *)
(* Performance idioms (see GseHeader!With): values are bound once through  *)
(* singleton quantifiers; the CRC is computed at the shallow Consume level.*)
(***************************************************************************)
EXTENDS Integers, FiniteSets, TLC, Json, IOUtils, GseSender, TraceRx, TraceTab

VARIABLES l,        \* next line of Rec
          scn,      \* current scenario number (from the last begin event)
          tx,       \* abstract sender state (GseSender)
          rx,       \* abstract receiver state (TraceRx)
          tb,       \* table coverage and the abstract memory of C17 runs (TraceTab)
          evals,    \* number of individual cases judged (family / run events count all their members)
          bad,      \* sequence of verdicts (capped)
          nbad,     \* total number of verdicts
          badBy,    \* clause name -> number of verdicts (the list `bad` keeps the first few per clause)
          hits,     \* clause name -> number of events on which its antecedent held
          classes,  \* set of distinct event classes (for distinct_nontrivial)
          crcCache, \* memo of CRCs already computed: <<pdu, tl, ptype, label>> -> crc
          crcTab    \* the CRC table derived once from the bitwise definition (see GseCrc)

vars == <<l, scn, tx, rx, tb, evals, bad, nbad, badBy, hits, classes, crcCache, crcTab>>

\* ------------------------------------------------------------- utilities
IsOkRes(r) == r.t \in {"completed", "fragmented"}
ResTag(r)  == IF r.t = "err" THEN r.e ELSE r.t

\* sender-side manager for parsing what encap_ext wrote: every mandatory
\* extension of the list is "known" with its own data size; the last one is
\* final iff it stands for the protocol type.
TxMgr(exts, T) ==
  \* plain encap with a type below 0x0100: the type field *is* a final
  \* mandatory extension without data (signalling, e.g. NCR 0x0081)
  IF Len(exts) = 0 THEN (IF T < 256 THEN (T :> [final |-> TRUE, size |-> 0]) ELSE NoMgr) ELSE
  LET n == Len(exts)
      ids == {exts[i].id : i \in {j \in 1..n : exts[j].id < 256}}
  IN [id \in ids |->
        LET i == CHOOSE j \in 1..n : exts[j].id = id
        IN  [final |-> (T < 256 /\ exts[n].id = id), size |-> Len(exts[i].data)]]

\* What was written, as far as it can be delimited: header, parse result.
TxView(wire, ok, rlen, mgr) ==
  With(IF ok /\ Len(wire) >= 2 /\ Len(wire) = rlen THEN HdrDecode(U16(wire, 1)) ELSE HdrDecode(0),
       LAMBDA hdr :
         LET hdrOk == ok /\ Len(wire) >= 2 /\ Len(wire) = rlen
             lenOk == hdrOk /\ hdr.len + 2 = rlen /\ ~hdr.pad
         IN  [ hdrOk |-> hdrOk, hdr |-> hdr, lenOk |-> lenOk,
               w |-> IF lenOk THEN Parse(wire, mgr) ELSE PBad(hdr, "nolen") ])

\* ------------------------------------------------------------------ encap
\* encap / encap_ext : C01 C02 C04 C06 C09 C10 C11 C12 C13 C15
\* q = TxView of the written bytes, crc = CRC the spec computes for this PDU
JudgeEncapQ(e, s, q, crc) ==
  LET r      == e.res
      ok     == IsOkRes(r)
      P      == PduLen(e.pdu)
      L      == e.label
      T      == e.ptype
      B      == e.buflen
      isExt  == e.fn = "encap_ext"
      exts   == e.exts
      lastFinal == isExt /\ Len(exts) > 0 /\ T < 256 /\ exts[Len(exts)].id = T
      extLen == IF isExt THEN ExtWireLen(exts, lastFinal) ELSE 0
      wire   == e.wire
      hdr    == q.hdr
      w      == q.w
      wl     == IF q.lenOk THEN hdr.lt ELSE L.k
      wll    == LtLen(wl)
      kindOk == q.lenOk /\ ((r.t = "completed" /\ hdr.kind = "complete") \/ (r.t = "fragmented" /\ hdr.kind = "first"))
      zero   == L = ZeroSix
      subAllowed == SubstAllowed(s, L)
      minWll == IF subAllowed THEN 0 ELSE LtLen(L.k)
      extBad == isExt /\ Len(exts) > 0 /\ ~ExtEncodable(exts, T)
      mustRej == zero \/ PtypeRejected(T) \/ TotalTooLong(P, minWll) \/ extBad
      subst  == kindOk /\ IsFullKind(L.k) /\ wl = "ru"
      \* label-type bits match the label actually written
      ltOk   == kindOk => CASE L.k = "ru" -> wl = "ru"
                             [] L.k = "bc" -> wl = "bc"
                             [] OTHER      -> (wl = L.k /\ w.label = L.b) \/ wl = "ru"
      \* "label as written (empty after a re-use substitution)": the sender's policy is deterministic - it
      \* substitutes whenever C15 allows it - so when substitution is allowed the label as written is empty
      fitsFull == CompleteFits(P, minWll, extLen, B)
      fitsWire == CompleteFits(P, wll, extLen, B)
      tl     == P + PtypeLen + wll
      needCrc == kindOk /\ w.ok /\ r.t = "fragmented" /\ ~TotalTooLong(P, wll) /\ crc.need
      payloadOk == kindOk /\ w.ok =>
                     /\ w.plen <= P
                     /\ SubSeq(wire, w.poff, Len(wire)) = SubSeq(PduBytes(e.pdu), 1, w.plen)
                     /\ (r.t = "completed" => w.plen = P)
      fieldsOk == kindOk /\ w.ok =>
                     /\ (r.t = "fragmented" => w.fragId = e.fragid)
                     /\ (IF isExt THEN w.ptype0 = exts[1].id ELSE w.ptype0 = T)
                     /\ w.ptype = T
                     /\ (IF isExt THEN w.exts = exts
                         ELSE IF T < 256 THEN w.exts = <<[id |-> T, data |-> <<>>]>>
                         ELSE w.exts = <<>>)
      tlOk   == kindOk /\ w.ok /\ r.t = "fragmented" /\ ~isExt => w.tl = tl
      ctxOk  == kindOk /\ w.ok /\ r.t = "fragmented" =>
                     /\ r.ctx.id = e.fragid
                     /\ r.ctx.sent = w.plen
      crcOk  == needCrc => (crc.key = <<e.pdu, tl, T, w.label>> /\ r.ctx.crc = crc.val)
      WFT    == IF r.t = "completed" THEN <<"C06", "C01">> ELSE <<"C06", "C02", "C11">>
      verdicts ==
           V(r.t # "panic", <<"C09">>, "Tx.NoPanic")
        \cup V(r.t = "err" => (e.state_same /\ e.buf_same), <<"C09">>, "Tx.ErrAtomic")
        \cup V(mustRej => ~ok, IF extBad /\ ~zero /\ ~PtypeRejected(T) THEN <<"C13">> ELSE <<"C09">>, "Tx.MustReject")
        \cup V(~isExt /\ ~mustRej /\ r.t \in {"err", "panic"} => ~fitsFull, <<"C01">>, "Tx.MustComplete.err")
        \cup V(~isExt /\ kindOk /\ r.t = "fragmented" => ~fitsWire, <<"C01">>, "Tx.MustComplete.frag")
        \cup V(~isExt /\ ~mustRej /\ B >= 13 => ok, <<"C02">>, "Tx.Buf13Accepted")
        \cup V(ok => Len(wire) = r.len, <<"C06">>, "Tx.LenWithinBuffer")
        \cup V(ok => e.tail_ok, <<"C06">>, "Tx.TailUntouched")
        \cup V(q.hdrOk => ~hdr.pad, <<"C10">>, "Tx.NotPadding")
        \* a packet that does not read back as what the status says cannot round-trip (C01 / C02) and carries no
        \* countable payload (C11)
        \cup V(q.hdrOk /\ ~hdr.pad => hdr.len + 2 = r.len, WFT, "Tx.GseLenIsWritten")
        \cup V(q.lenOk => kindOk, WFT, "Tx.StartEndBits")
        \cup V(kindOk => w.ok, WFT, "Tx.Parses")
        \cup V(ltOk, <<"C06">>, "Tx.LabelTypeBits")
        \cup V(fieldsOk, IF isExt THEN <<"C06", "C13">> ELSE <<"C06">>, "Tx.Fields")
        \cup V(tlOk, <<"C06">>, "Tx.TotalLength")
        \cup V(payloadOk, <<"C06", "C11">>, "Tx.PayloadIsPduPrefix")
        \cup V(ctxOk, <<"C11">>, "Tx.FirstCtx")
        \cup V(crcOk, <<"C12">>, "Tx.FirstCrc")
        \cup V(subst => s.en, <<"C15">>, "Tx.DisabledNeverSubstitutes")
        \cup V(subst => s.prev = L, <<"C15", "C04">>, "Tx.SubstituteOnlySame")
        \cup V(subst => (s.max = 0 \/ s.run < s.max), <<"C15">>, "Tx.MaxRespected")
      hs ==     H(TRUE, "Tx.NoPanic") \cup H(r.t = "err", "Tx.ErrAtomic") \cup H(mustRej, "Tx.MustReject")
           \cup H(~isExt /\ ~mustRej /\ fitsFull, "Tx.MustComplete.err")
           \cup H(~isExt /\ kindOk /\ r.t = "fragmented", "Tx.MustComplete.frag")
           \cup H(~isExt /\ ~mustRej /\ B >= 13, "Tx.Buf13Accepted")
           \cup H(ok, "Tx.LenWithinBuffer") \cup H(ok, "Tx.TailUntouched") \cup H(q.hdrOk, "Tx.NotPadding")
           \cup H(q.hdrOk, "Tx.GseLenIsWritten") \cup H(q.lenOk, "Tx.StartEndBits") \cup H(kindOk, "Tx.Parses")
           \cup H(kindOk, "Tx.LabelTypeBits") \cup H(kindOk /\ w.ok, "Tx.Fields")
           \cup H(kindOk /\ w.ok /\ r.t = "fragmented" /\ ~isExt, "Tx.TotalLength")
           \cup H(kindOk /\ w.ok, "Tx.PayloadIsPduPrefix")
           \cup H(kindOk /\ w.ok /\ r.t = "fragmented", "Tx.FirstCtx") \cup H(needCrc, "Tx.FirstCrc")
           \cup H(subst, "Tx.DisabledNeverSubstitutes") \cup H(subst, "Tx.SubstituteOnlySame")
           \cup H(subst /\ s.max > 0, "Tx.MaxRespected")
           \cup H(kindOk /\ subAllowed /\ ~subst, "Tx.FullThoughSubstAllowed")
  IN  [ bad |-> verdicts, hits |-> hs,
        tx |-> IF kindOk THEN TxAfterStart(s, L, wl) ELSE s,
        cls |-> <<"encap", e.fn, L.k, ResTag(r), SizeClass(P), SizeClass(B), PtClass(T), Len(exts), subst>> ]

JudgeEncap(e, s, crc) ==
  With(TxView(e.wire, IsOkRes(e.res), IF IsOkRes(e.res) THEN e.res.len ELSE 0, TxMgr(e.exts, e.ptype)),
       LAMBDA q : JudgeEncapQ(e, s, q, crc))

\* -------------------------------------------------------------- encap_frag
\* C06 C09 C10 C11 C12
JudgeFragQ(e, q) ==
  LET r     == e.res
      ok    == IsOkRes(r)
      P     == PduLen(e.pdu)
      c     == e.ctx
      B     == e.buflen
      wire  == e.wire
      inRange == P <= TotalLenMax       \* C11 quantifies over PDUs of 0..65535 bytes
      hdr   == q.hdr
      w     == q.w
      kindOk == q.lenOk /\ ((r.t = "completed" /\ hdr.kind = "end") \/ (r.t = "fragmented" /\ hdr.kind = "inter"))
      wf    == kindOk /\ (w.ok \/ w.why = "empty_inter")
      n     == w.plen
      mustRej == c.sent > P
      stepOk == wf /\ r.t = "fragmented" /\ inRange =>
                  /\ n >= 1
                  /\ c.sent + n <= P
                  /\ r.ctx = [id |-> c.id, crc |-> c.crc, sent |-> c.sent + n]
                  /\ SubSeq(wire, w.poff, Len(wire)) = SubSeq(PduBytes(e.pdu), c.sent + 1, c.sent + n)
      endOk == wf /\ r.t = "completed" /\ inRange /\ ~mustRej =>
                  /\ n = P - c.sent
                  /\ SubSeq(wire, w.poff, w.poff + n - 1) = SubSeq(PduBytes(e.pdu), c.sent + 1, P)
      verdicts ==
           V(r.t # "panic", <<"C09">>, "Frag.NoPanic")
        \cup V(r.t = "err" => (e.state_same /\ e.buf_same), <<"C09">>, "Frag.ErrAtomic")
        \cup V(e.state_same \/ r.t = "panic", <<"C09">>, "Frag.SenderUntouched")
        \cup V(mustRej => ~ok, <<"C09">>, "Frag.MustReject")
        \cup V(~mustRej /\ B >= 7 /\ inRange => ok, <<"C11", "C02">>, "Frag.Buf7Accepted")
        \cup V(ok => Len(wire) = r.len, <<"C06">>, "Frag.LenWithinBuffer")
        \cup V(ok => e.tail_ok, <<"C06">>, "Frag.TailUntouched")
        \cup V(q.hdrOk => ~hdr.pad, <<"C10">>, "Frag.NotPadding")
        \cup V(q.hdrOk /\ ~hdr.pad => hdr.len + 2 = r.len, <<"C06", "C02", "C11">>, "Frag.GseLenIsWritten")
        \cup V(q.lenOk => kindOk, <<"C06", "C02", "C11">>, "Frag.StartEndBits")
        \cup V(kindOk => wf, <<"C06", "C02", "C11">>, "Frag.Parses")
        \* C11: a successful continuation call emits the final CRC-bearing packet or an intermediate packet
        \cup V(ok /\ inRange /\ ~mustRej => wf, <<"C11">>, "Frag.OkIsEndOrIntermediate")
        \cup V(wf => w.fragId = c.id, <<"C06">>, "Frag.FragId")
        \cup V(wf /\ r.t = "fragmented" => n >= 1, <<"C11">>, "Frag.NoEmptyFragment")
        \cup V(stepOk, <<"C11">>, "Frag.Step")
        \cup V(endOk, <<"C11">>, "Frag.End")
        \cup V(wf /\ r.t = "completed" => w.crc = c.crc, <<"C12", "C11">>, "Frag.EndCarriesCtxCrc")
      hs ==     H(TRUE, "Frag.NoPanic") \cup H(r.t = "err", "Frag.ErrAtomic") \cup H(mustRej, "Frag.MustReject")
           \cup H(~mustRej /\ B >= 7 /\ inRange, "Frag.Buf7Accepted") \cup H(ok, "Frag.LenWithinBuffer")
           \cup H(ok, "Frag.TailUntouched") \cup H(q.hdrOk, "Frag.NotPadding") \cup H(q.hdrOk, "Frag.GseLenIsWritten")
           \cup H(q.lenOk, "Frag.StartEndBits") \cup H(kindOk, "Frag.Parses") \cup H(wf, "Frag.FragId")
           \cup H(wf /\ r.t = "fragmented", "Frag.NoEmptyFragment")
           \cup H(wf /\ r.t = "fragmented" /\ inRange, "Frag.Step")
           \cup H(wf /\ r.t = "completed" /\ inRange /\ ~mustRej, "Frag.End")
           \cup H(wf /\ r.t = "completed", "Frag.EndCarriesCtxCrc")
           \cup H(TRUE, "Frag.SenderUntouched") \cup H(ok /\ inRange /\ ~mustRej, "Frag.OkIsEndOrIntermediate")
  IN  [ bad |-> verdicts, hits |-> hs,
        cls |-> <<"encap_frag", ResTag(r), SizeClass(P), SizeClass(B),
                  IF c.sent > P THEN 3 ELSE IF c.sent = P THEN 2 ELSE IF c.sent = 0 THEN 0 ELSE 1,
                  SizeClass(IF c.sent > P THEN 0 ELSE P - c.sent)>> ]

JudgeFrag(e) ==
  With(TxView(e.wire, IsOkRes(e.res), IF IsOkRes(e.res) THEN e.res.len ELSE 0, NoMgr),
       LAMBDA q : JudgeFragQ(e, q))

\* ---------------------------------------------------------------- previews
\* C18 (and C09 totality of the previews)
KindOfWire(wire) == IF Len(wire) >= 2 THEN HdrDecode(U16(wire, 1)).kind ELSE "none"

JudgePreview(e, isFrag) ==
  LET p == e.prev
      r == e.enc
      cmp == r.t # "panic" /\ p.t # "panic"
      agree ==
        IF p.t = "err" THEN r.t = "err" /\ r.e = p.e
        ELSE /\ IsOkRes(r)
             /\ p.pkt_len = r.len
             /\ p.kind = KindOfWire(e.wire)
             /\ (isFrag => p.pdu_len = r.len - (IF p.kind = "end" THEN EndOverhead ELSE InterHdr))
      verdicts ==
           V(p.t # "panic", <<"C09">>, "Preview.NoPanic")
        \cup V(cmp => agree, <<"C18">>, IF isFrag THEN "FragPreview.Agrees" ELSE "Preview.Agrees")
  IN  [ bad |-> verdicts,
        hits |-> H(TRUE, "Preview.NoPanic") \cup H(cmp, IF isFrag THEN "FragPreview.Agrees" ELSE "Preview.Agrees"),
        cls |-> <<e.ev, IF p.t = "ok" THEN p.kind ELSE ResTag(p), SizeClass(e.pdulen), SizeClass(e.buflen),
                  IF isFrag THEN 0 ELSE PtClass(e.ptype)>> ]

\* ----------------------------------------------------------------- CRC job
\* Which CRC does this event need?  Computed at the shallow Consume level and
\* handed to the judges as a value: [need, key, val, new].
NoCrc == [need |-> FALSE, key |-> <<>>, val |-> ZeroCrc, new |-> FALSE]

CrcJob(key, bytes) ==
  IF key \in DOMAIN crcCache
  THEN [need |-> TRUE, key |-> key, val |-> crcCache[key], new |-> FALSE]
  ELSE [need |-> TRUE, key |-> key, val |-> CrcFields(crcTab, key[2], key[3], key[4], bytes), new |-> TRUE]

CrcFor(e) ==
  IF e.ev = "encap" /\ e.res.t = "fragmented" /\ Len(e.wire) >= 2 /\ PduLen(e.pdu) <= TotalLenMax
  THEN LET lt == HdrDecode(U16(e.wire, 1)).lt
           ll == LtLen(lt)
           tl == PduLen(e.pdu) + PtypeLen + ll
       IN  IF tl > TotalLenMax \/ Len(e.wire) < 7 + ll THEN NoCrc
           ELSE CrcJob(<<e.pdu, tl, e.ptype, SubSeq(e.wire, 8, 7 + ll)>>, PduBytes(e.pdu))
  ELSE IF e.ev = "decap" THEN RxCrcFor(e, rx, crcTab)
  ELSE IF e.ev = "crc_vec" THEN
       \* short vectors: the bitwise definition itself; long ones: the derived table
       [need |-> TRUE, key |-> <<>>, new |-> FALSE,
        val |-> IF e.pdu_ref = 0 THEN CrcFieldsBitwise(e.tl, e.ptype, e.label, e.pdu)
                ELSE CrcFields(crcTab, e.tl, e.ptype, e.label, PduBytes(e.pdu_ref))]
  ELSE NoCrc

\* ------------------------------------------------------------------- step
Empty == [bad |-> {}, hits |-> {}, cls |-> <<"none">>]
W1 == [weight |-> 1]     \* default weight of an event

Step(e, crc) ==
  CASE e.ev = "begin" ->
         [Empty EXCEPT !.cls = <<"begin", e.drv>>] @@ [tx |-> TxInit, rx |-> RxBegin(e), tb |-> TabBegin(e)] @@ W1
    [] e.ev = "encap" ->
         JudgeEncap(e, tx, crc) @@ [rx |-> RxAfterEncap(rx, e, tx), tb |-> tb] @@ W1
    [] e.ev = "encap_frag" ->
         JudgeFrag(e) @@ [tx |-> tx, rx |-> RxAfterFrag(rx, e), tb |-> tb] @@ W1
    [] e.ev = "preview" ->
         JudgePreview(e, FALSE) @@ [tx |-> tx, rx |-> rx, tb |-> tb] @@ W1
    [] e.ev = "frag_preview" ->
         JudgePreview(e, TRUE) @@ [tx |-> tx, rx |-> rx, tb |-> tb] @@ W1
    [] e.ev = "cfg" ->
         [Empty EXCEPT !.cls = <<"cfg", e.op>>] @@
         [tx |-> TxCfg(tx, e.op, e.n), tb |-> tb,
          rx |-> IF e.op = "set_crc" /\ Has(e, "inv") THEN [rx EXCEPT !.txinv = e.inv] ELSE rx] @@ W1
    [] e.ev = "hdr_dec_run" -> JudgeHdrDec(e, tb) @@ [tx |-> tx, rx |-> rx]
    [] e.ev = "hdr_enc_run" -> JudgeHdrEnc(e, tb) @@ [tx |-> tx, rx |-> rx]
    [] e.ev = "ext_new_run" -> JudgeExtNew(e, tb) @@ [tx |-> tx, rx |-> rx]
    [] e.ev = "crc_vec"     -> JudgeCrcVec(e, crc) @@ [tx |-> tx, rx |-> rx, tb |-> tb] @@ W1
    [] e.ev = "utils_rt"    -> JudgeUtilsRt(e) @@ [tx |-> tx, rx |-> rx, tb |-> tb] @@ W1
    [] e.ev = "utils_gen"   -> JudgeUtilsGen(e) @@ [tx |-> tx, rx |-> rx, tb |-> tb] @@ W1
    [] e.ev = "mem_op"      -> JudgeMemOp(e, tb) @@ [tx |-> tx, rx |-> rx] @@ W1
    [] OTHER ->
         RxStep(e, rx, tx, crc) @@ [tx |-> tx, tb |-> tb] @@ W1

MaxPerClause == 6

Init ==
  /\ l = 1 /\ scn = 0
  /\ tx = TxInit /\ rx = RxInit /\ tb = TabInit /\ evals = 0
  /\ bad = <<>> /\ nbad = 0 /\ badBy = [c \in {} |-> 0]
  /\ hits = [c \in {} |-> 0]
  /\ classes = {}
  /\ crcCache = [k \in {} |-> ZeroCrc]
  /\ crcTab = CrcTable

\* what a complementing calculator returns for the same fields
CrcAdj(c, e) ==
  IF c.need /\ ((e.ev = "encap" /\ rx.txinv) \/ (e.ev = "decap" /\ rx.inv))
  THEN [c EXCEPT !.val = <<65535 - c.val[1], 65535 - c.val[2]>>] ELSE c

Consume ==
  /\ l <= Len(Rec)
  /\ \E e \in {Rec[l]} :
     \E crc0 \in {CrcFor(e)} :
     \E crc \in {CrcAdj(crc0, e)} :
     \E j \in {Step(e, crc)} :
        LET sc == IF e.ev = "begin" THEN e.scn ELSE scn
            nb == SetToSeq(j.bad)
            tagged == [i \in 1..Len(nb) |-> [props |-> nb[i].props, c |-> nb[i].c, line |-> l, scn |-> sc, ev |-> e.ev]]
        IN /\ scn' = sc
           /\ tx' = j.tx
           /\ rx' = j.rx
           /\ tb' = j.tb
           /\ evals' = evals + j.weight
           /\ crcCache' = IF crc0.new
                          THEN (IF Cardinality(DOMAIN crcCache) > 300 THEN (crc0.key :> crc0.val)
                                ELSE (crc0.key :> crc0.val) @@ crcCache)
                          ELSE crcCache
           /\ nbad' = nbad + Len(nb)
           /\ bad' = bad \o SelectSeq(tagged, LAMBDA x : (IF x.c \in DOMAIN badBy THEN badBy[x.c] ELSE 0) < MaxPerClause)
           /\ badBy' = LET cs == {nb[i].c : i \in 1..Len(nb)}
                        IN [c \in DOMAIN badBy \cup cs |->
                              (IF c \in DOMAIN badBy THEN badBy[c] ELSE 0) + (IF c \in cs THEN 1 ELSE 0)]
           /\ hits' = [c \in DOMAIN hits \cup j.hits |->
                         (IF c \in DOMAIN hits THEN hits[c] ELSE 0) + (IF c \in j.hits THEN 1 ELSE 0)]
           /\ classes' = classes \cup {j.cls}
           /\ l' = l + 1
           /\ UNCHANGED crcTab

\* After the last line: write the verdict file.  The runner treats a missing
\* or incomplete verdict file as a tool error, never as a property verdict.
Finish ==
  /\ l = Len(Rec) + 1
  /\ JsonSerialize(IOEnv.OUT,
       [ consumed |-> l - 1, lines |-> Len(Rec), nbad |-> nbad, bad |-> bad, bad_by |-> badBy,
         hits |-> hits, nclasses |-> Cardinality(classes), classes |-> SetToSeq(classes), scenarios |-> scn, evals |-> evals,
         hdr_dec_words |-> tb.hdrNext, hdr_enc_triples |-> tb.encCount,
         ext_new_ids |-> [d \in 0..10 |-> tb.extNext[d]] ])
  /\ l' = l + 1
  /\ UNCHANGED <<scn, tx, rx, tb, evals, bad, nbad, badBy, hits, classes, crcCache, crcTab>>

Next == Consume \/ Finish
Spec == Init /\ [][Next]_vars
=============================================================================
