SPECIFICATION Spec
CONSTANTS
  GseLenMax = 4095
  TotalLenMax = 65535
CHECK_DEADLOCK FALSE
