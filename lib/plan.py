"""Which bounded models and which conformance drivers decide which property.
A check reports only verdicts whose clause is tagged with its property id."""

D = lambda name, *args: (name, list(args))  # noqa: E731

MC_MODELS = {
    "MC_Header": {"tla": "MC_Header.tla", "cfg": "MC_Header.cfg", "workers": 4, "timeout": 300},
    "MC_Labels": {"tla": "MC_Labels.tla", "cfg": "MC_Labels.cfg", "workers": 6, "timeout": 300},
    "MC_Memory": {"tla": "MC_Memory.tla", "cfg": "MC_Memory.cfg", "thorough_cfg": "MC_Memory_thorough.cfg", "workers": 8, "timeout": 1500},
}

# S->I scenario generators: TLC enumerates behaviours, the harness replays them on the real code
GENERATORS = {
    "Gen_Memory": {"tla": "MC_Memory.tla", "cfg": "Gen_Memory.cfg", "thorough_cfg": "Gen_Memory_thorough.cfg", "timeout": 600},
}

PLAN = {
    "C01": {"mc": [], "drivers": [D("lattice"), D("chains")]},
    "C02": {"mc": [], "drivers": [D("chains"), D("lattice")]},
    "C03": {"mc": [], "drivers": [D("faults"), D("chains")]},
    "C04": {"mc": ["MC_Labels"], "drivers": [D("labels"), D("chains")]},
    "C05": {"mc": [], "drivers": [D("fuzzrx"), D("faults")]},
    "C06": {"mc": [], "drivers": [D("lattice"), D("chains"), D("ext")]},
    "C07": {"mc": [], "drivers": [D("interleave"), D("frames")]},
    "C08": {"mc": [], "drivers": [D("fuzzrx"), D("faults"), D("interleave"), D("labels")]},
    "C09": {"mc": ["MC_Labels"], "drivers": [D("lattice"), D("labels"), D("ext")]},
    "C10": {"mc": [], "drivers": [D("frames"), D("chains"), D("ext")]},
    "C11": {"mc": [], "drivers": [D("lattice"), D("chains")]},
    "C12": {"mc": [], "drivers": [D("crc"), D("chains"), D("lattice")]},
    "C13": {"mc": [], "drivers": [D("extnew"), D("ext")]},
    "C14": {"mc": ["MC_Header"], "drivers": [D("hdr")], "exhaustive": True},
    "C15": {"mc": ["MC_Labels"], "drivers": [D("labels"), D("lattice")]},
    "C16": {"mc": [], "drivers": [D("fuzzrx"), D("faults")]},
    "C17": {"mc": ["MC_Memory"], "drivers": [D("memops"), D("memops", "--scn", "@gen:Gen_Memory")]},
    "C18": {"mc": [], "drivers": [D("lattice")]},
    "C19": {"mc": [], "drivers": [D("chains"), D("frames"), D("ext")]},
    "C20": {"mc": [], "drivers": [D("utils")]},
}
