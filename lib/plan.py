"""Which bounded models and which conformance drivers decide which property.
A check reports only verdicts whose clause is tagged with its property id."""

D = lambda name, *args: (name, list(args))  # noqa: E731

MC_MODELS = {
    "MC_Header": {"tla": "MC_Header.tla", "cfg": "MC_Header.cfg", "workers": 4, "timeout": 300},
    "MC_Labels": {"tla": "MC_Labels.tla", "cfg": "MC_Labels.cfg", "thorough_cfg": "MC_Labels_thorough.cfg", "workers": 8, "timeout": 1800},
    "MC_Memory": {"tla": "MC_Memory.tla", "cfg": "MC_Memory.cfg", "thorough_cfg": "MC_Memory_thorough.cfg", "workers": 8, "timeout": 1500},
    "MC_Frag": {"tla": "MC_Frag.tla", "cfg": "MC_Frag.cfg", "thorough_cfg": "MC_Frag_thorough.cfg", "workers": 8, "timeout": 2400},
    "MC_FragReal": {"tla": "MC_Frag.tla", "cfg": "MC_Frag_real_quick.cfg", "thorough_cfg": "MC_Frag_real.cfg", "workers": 8, "timeout": 900},
    "MC_FragLive": {"tla": "MC_Frag.tla", "cfg": "MC_Frag_live.cfg", "workers": 8, "timeout": 900, "thorough_only": True},
    "MC_Rx": {"tla": "MC_Rx.tla", "cfg": "MC_Rx.cfg", "thorough_cfg": "MC_Rx_thorough.cfg", "workers": 8, "timeout": 2400},
    "MC_RxFaults": {"tla": "MC_Rx.tla", "cfg": "MC_RxFaults.cfg", "thorough_cfg": "MC_RxFaults_thorough.cfg", "workers": 8, "timeout": 2400},
    # "off": actions this configuration switches off on purpose (faithful channel)
    "MC_System": {"tla": "MC_System.tla", "cfg": "MC_System.cfg", "workers": 8, "timeout": 900, "off": ["Lose", "Twice"]},
    "MC_SystemLossy": {"tla": "MC_System.tla", "cfg": "MC_System_lossy_quick.cfg", "thorough_cfg": "MC_System_lossy.cfg", "workers": 8, "timeout": 1800},
    "MC_Wire": {"tla": "MC_Wire.tla", "cfg": "MC_Wire.cfg", "workers": 6, "timeout": 600},
    "MC_Crc": {"tla": "MC_Crc.tla", "cfg": "MC_Crc.cfg", "thorough_cfg": "MC_Crc_thorough.cfg", "workers": 6, "timeout": 1200},
}

# S->I scenario generators: TLC enumerates behaviours, the harness replays them on the real code
GENERATORS = {
    "Gen_Memory": {"tla": "MC_Memory.tla", "cfg": "Gen_Memory.cfg", "thorough_cfg": "Gen_Memory_thorough.cfg", "timeout": 600},
    "Gen_Rx": {"tla": "MC_Rx.tla", "cfg": "Gen_Rx.cfg", "timeout": 600, "quick_simulate": [600, 10], "thorough_simulate": [6000, 10]},
    "Gen_RxFaults": {"tla": "MC_Rx.tla", "cfg": "Gen_RxFaults.cfg", "timeout": 600, "quick_simulate": [400, 10], "thorough_simulate": [4000, 10]},
    "Gen_System": {"tla": "MC_System.tla", "cfg": "Gen_System.cfg", "timeout": 600, "quick_simulate": [300, 16], "thorough_simulate": [3000, 16]},
    "Gen_SystemLossy": {"tla": "MC_System.tla", "cfg": "Gen_SystemLossy.cfg", "timeout": 600, "quick_simulate": [300, 16], "thorough_simulate": [3000, 16]},
    "Gen_Labels": {"tla": "MC_Labels.tla", "cfg": "Gen_Labels.cfg", "timeout": 900, "quick_sample": 1500},
}

# Conformance drivers.  A check reports every verdict whose clause is tagged with its property, whichever driver
# produced the event; so each property runs every driver in which clauses tagged with it are exercised (hit
# matrix computed over one quick run of all drivers; zero-hit combinations are left out).
RXGEN = D("rxscn", "--scn", "@gen:Gen_Rx")
RXGENF = D("rxscn", "--scn", "@gen:Gen_RxFaults")
LABGEN = D("labels", "--scn", "@gen:Gen_Labels")
TX = [D("lattice"), D("chains"), D("ext"), D("labels"), LABGEN]
RX = [D("faults"), D("fuzzrx"), D("interleave"), D("frames"), D("memfaults"), RXGEN, RXGENF]
UT = [D("utils")]
SYS = D("sysscn", "--scn", "@gen:Gen_System")
SYSL = D("sysscn", "--scn", "@gen:Gen_SystemLossy")
# the same drivers over a second, independent implementation of the memory trait (alias-free, FIFO free list)
X = lambda name: D(name, "--mem", "exact")  # noqa: E731

PLAN = {
    "C01": {"mc": ["MC_Frag", "MC_FragReal"], "drivers": TX + [D("faults"), D("fuzzrx"), D("interleave"), D("frames"), D("memfaults")] + UT},
    "C02": {"mc": ["MC_Frag", "MC_FragReal", "MC_FragLive", "MC_Rx", "MC_System"], "drivers": TX + RX + UT + [D("custcrc"), SYS]},
    "C03": {"mc": ["MC_Rx", "MC_Crc", "MC_SystemLossy"], "drivers": [SYSL, RXGEN, D("faults"), D("chains"), D("ext"), D("fuzzrx"), D("interleave"), D("frames"), D("memfaults"), D("labels"), X("faults"), D("custcrc")] + UT},
    "C04": {"apalache": ["ApaLabels"], "mc": ["MC_Labels", "MC_System"], "drivers": [SYS, SYSL, D("labels"), LABGEN, D("chains"), D("lattice"), D("ext"), D("faults"), D("fuzzrx"), D("memfaults"), D("interleave"), D("frames")]},
    "C05": {"mc": ["MC_Wire", "MC_Rx"], "drivers": [D("fuzzrx"), D("faults"), D("ext"), D("chains"), D("labels"), D("interleave"), D("frames"), D("memfaults"), RXGEN, RXGENF, X("fuzzrx")] + UT},
    "C06": {"mc": ["MC_Frag", "MC_FragReal", "MC_Wire"], "drivers": TX + [D("interleave"), D("frames")] + UT},
    "C07": {"mc": ["MC_Rx", "MC_System", "MC_SystemLossy"], "drivers": [SYS, SYSL, RXGEN, RXGENF, D("interleave"), D("frames"), D("faults"), D("fuzzrx"), D("memfaults"), D("chains"), D("ext"), D("labels"), X("interleave"), X("frames")] + UT},
    "C08": {"mc": ["MC_Rx", "MC_RxFaults", "MC_Memory"],
            "drivers": [RXGEN, RXGENF, D("memfaults"), D("fuzzrx"), D("faults"), D("interleave"), D("labels"), D("chains"), D("ext"), D("frames"), X("memfaults"), X("fuzzrx")] + UT},
    "C09": {"mc": ["MC_Labels", "MC_Frag"], "drivers": TX + [D("interleave"), D("frames")] + UT},
    "C10": {"mc": ["MC_Wire", "MC_Rx"], "drivers": [D("frames"), D("chains"), D("ext"), D("lattice"), D("labels"), D("faults"), D("fuzzrx"), D("interleave"), D("memfaults"), RXGEN, RXGENF] + UT},
    "C11": {"mc": ["MC_Frag", "MC_FragReal", "MC_FragLive"], "drivers": TX + [D("interleave"), D("frames")] + UT},
    "C12": {"mc": ["MC_Crc"], "drivers": [D("crc"), D("custcrc"), D("chains"), D("lattice"), D("ext"), D("labels"), D("faults"), D("fuzzrx"), D("interleave"), D("frames"), D("memfaults")] + UT},
    "C13": {"mc": ["MC_Wire", "MC_Frag"], "drivers": [D("extnew"), D("ext"), D("lattice"), D("chains"), D("labels"), LABGEN, D("faults"), D("fuzzrx"), D("interleave"), D("frames"), D("memfaults")] + UT},
    "C14": {"mc": ["MC_Header"], "drivers": [D("hdr"), D("fuzzrx"), D("frames"), D("labels")], "exhaustive": True},
    "C15": {"apalache": ["ApaLabels"], "mc": ["MC_Labels"], "drivers": [D("labels"), LABGEN, D("lattice"), D("chains"), D("ext"), D("interleave"), D("frames")]},
    "C16": {"mc": ["MC_Rx"], "drivers": [RXGEN, D("fuzzrx"), D("faults"), D("memfaults"), X("faults"), X("memfaults")]},
    "C17": {"mc": ["MC_Memory"], "drivers": [D("memops"), D("memops", "--scn", "@gen:Gen_Memory"), D("fuzzrx"), LABGEN]},
    "C18": {"mc": ["MC_Frag"], "drivers": [D("lattice")]},
    "C19": {"mc": ["MC_Wire"], "drivers": [D("chains"), D("frames"), D("ext")]},
    "C20": {"mc": ["MC_Wire"], "drivers": [D("utils")]},
}
