#!/usr/bin/env python3
"""Regenerates /verif/MANIFEST.json from lib/plan.py and the texts below."""
import json, os, sys
sys.path.insert(0, os.path.dirname(os.path.abspath(__file__)))
from plan import PLAN, MC_MODELS

ROOT = os.path.normpath(os.path.join(os.path.dirname(os.path.abspath(__file__)), ".."))

TEXT = {
 "C01": ("MC_Frag/MC_FragReal close all first-call outcomes the clauses admit (small family: every PDU/buffer size; real constants: boundary lattice) and show 'fits => completed, delivered once, whole PDU'. Conformance: lattice + chains traces of the real crate; every encap result is judged by Tx.MustComplete / Tx.Fields / Tx.PayloadIsPduPrefix and every decap of exactly the reported bytes by Rx.CompleteDeliver / Rx.CompleteContent / Rx.RoundTrip.complete / Rx.OkConsumesPacket.", "6 C01"),
 "C02": ("MC_Frag explores every buffer schedule and every admissible fragment fill (6.5M transitions, small family; real lattice to depth 4/6) and proves partition, exactly-one delivery, the 13-/7-byte acceptance rules and, thorough tier, termination under weak fairness (MC_FragLive). MC_Rx covers the receiver side under arbitrary interleaving. Conformance: chains (lock-step sender/receiver over random, tiny, >4097 and 'payload but no CRC' buffers, PDUs up to 65533-|label|, all frag ids), judged by Tx.Buf13Accepted, Frag.Buf7Accepted, Rx.FirstAccept/Append/EndDelivers, Rx.RoundTrip.fragmented, Rx.ExactlyOnce.", "6 C02"),
 "C03": ("MC_Rx: adversary sending any fragment of any PDU on any id with matching/stale/junk CRC tags (perfect abstract checksum); action property DeliverOnlyVerified on every transition. MC_Crc brute-forces burst detection up to 8 (thorough 11) bits. Conformance: faults driver (drop/dup/swap, every 3rd (thorough: every) single-bit flip, bursts <= 32 bits, truncation at every byte, field replacement, double faults, spliced trains, 16-bit length wrap-around with storage > 65535); TLC recomputes length and CRC-32 of the bytes actually received (ghost `arrived`) and judges Rx.DeliverOnlyVerified / Rx.DeliveredIsConcatenation.", "6 C03"),
 "C04": ("MC_Labels closes the full graph (11 650 states) of any clause-abiding sender x any forgetful receiver incl. failing calls, starvation, resets, config changes, counter wrap at 255: Attribution and ResolveNearest are invariants. Conformance: labels driver (lock-step random histories with failing calls, fragments, encap_ext, config changes; receiver-only histories with malformed packets) judged by Rx.Attribution(.frag), Rx.ResolveNearest (admissible-set construction), Tx.SubstituteOnlySame.", "6 C04"),
 "C05": ("Totality is a per-call property; the model part is the total classification of byte strings (GseWire!Classify/Parse, MC_Wire) and MC_Rx (no stuck state). Conformance: fuzzrx - all strings of length 0..2 individually, all 2^24 strings of length 3 as lossless run families (thorough: in 9 receiver states), headers x truncations x adversarial tails in 5 (9) receiver states, random / mutated-valid packets up to 8 KiB; every call under catch_unwind; judged by Rx.NoPanic, Rx.ConsumedWithinBuffer, Rx.ConsumedProgress, Peek.NoPanic, Family.*.", "6 C05"),
 "C06": ("MC_Frag action property WellSized on every emitted packet; MC_Wire: Parse inverts SerializePkt for 165k descriptions. Conformance: every packet written by encap / encap_frag / encap_ext in lattice, chains and ext runs is parsed by TLC (independent reading of TS 102 606) and judged by Tx.*/Frag.* clauses: start/end bits, label-type bits, GSE length = written - 2 <= 4095, field order, total length, reported length, untouched tail.", "6 C06"),
 "C07": ("MC_Rx: all interleavings of first/inter/end packets on 3 ids over 2 slots (aliasing), action properties ExactlyOnce and OthersUntouched. Conformance: interleave driver (all / sampled order-preserving merges of 2..4 PDUs with strays on aliasing and unknown ids, complete packets, restarts) with the real memory projected after every packet; judged by Rx.OtherContextsUntouched, Rx.InterleavedDelivered, Rx.ExactlyOnce, Rx.FirstOpensContext, Rx.AppendAdvances.", "6 C07"),
 "C08": ("MC_Rx / MC_Memory invariant Conservation (free, slots, caller partition the buffers) in every reachable state. Conformance: a wrapper memory logs every trait call made during a decap and the real SimpleGseMemory is projected (clone-drain) after every event; Rx.Conservation / Prov.Conservation / Drain.Conservation and Rx.GiveBack are evaluated on every event of fuzzrx, faults, interleave and labels.", "6 C08"),
 "C09": ("MC_Labels uses SendFail as a stutter and shows the history properties need it; MC_Frag shows the clause set is satisfiable for every input. Conformance: lattice over PDU/buffer lengths 0..70000, all labels, ptypes on both sides of 0x0100/0x0600, contexts beyond the PDU, extension lists, prior sender states; labels driver interleaves failing calls; judged by Tx.NoPanic, Tx.ErrAtomic (PartialEq snapshot + buffer bytes), Tx.MustReject, Frag.MustReject, Preview.NoPanic.", "6 C09"),
 "C10": ("MC_Wire: a delimited packet is independent of its tail and never reads as padding. Conformance: frames driver - frames of encapsulator packets back to back with padding, garbage and rejected packets, walked by consumed length while a twin receiver gets each packet alone; judged by Rx.TailIndependent, Rx.OkConsumesPacket, Rx.RejectOwnLen.*, Rx.UnknownIdRejectedOwnLen, Rx.UnknownMandatoryDropsWhole, Rx.PaddingConsumesRest, Tx/Frag.NotPadding.", "6 C10"),
 "C11": ("MC_Frag invariants Partition, ProgressBound, Buf7Accepted over every schedule and fill. Conformance: lattice (every cursor position incl. exactly at the end, buffers 0..70000) and chains; judged by Tx.FirstCtx, Frag.Step, Frag.End, Frag.NoEmptyFragment, Frag.Buf7Accepted with payload bytes compared to the PDU window by TLC.", "6 C11"),
 "C12": ("GseCrc defines CRC-32/MPEG-2 bitwise; MC_Crc checks the derived table against it for every byte value, the check value 0x0376E6E7 and the field order. Conformance: crc driver (every byte value at every field position, all-zero/all-one, lengths 0..64, 4095, 65535, random) recomputed by TLC; use sites judged by Tx.FirstCrc, Frag.EndCarriesCtxCrc and the receiver's verified deliveries.", "6 C12"),
 "C13": ("MC_Wire: the extension walker recovers every chain shape, stops at unknown mandatory ids, rejects truncated chains. Conformance: extnew (all 65536 ids x 0..10 data bytes, lossless runs) and ext driver (chains of 1..4 of every class, complete and fragmented with the buffer cut at every offset, receivers knowing all/some/none of the mandatory ids, refused combinations); judged by ExtNew.*, Tx.Fields, Tx.MustReject, Rx.ExtensionsReported, Rx.UnknownMandatoryDropsWhole, Rx.RoundTrip.*.", "6 C13"),
 "C14": ("Exhaustive: MC_Header has one state per 16-bit word and per (kind, label type, length) triple with the three sentences of the property as invariants; the implementation's full decode and encode tables (lossless run compression) are validated entry by entry against the same operators.", "6 C14"),
 "C15": ("MC_Labels invariants DisabledNeverSubstitutes, MaxRespected, FullAfterClear, SubstituteOnlySame over the closed graph for max in {0,1,2,3,255}. Conformance: labels (incl. 300 consecutive sends at max 255) and lattice prior states; judged on the label-type bits TLC parses from each packet: Tx.DisabledNeverSubstitutes, Tx.MaxRespected, Tx.SubstituteOnlySame.", "6 C15"),
 "C16": ("MC_Rx invariant Recovers: in every reachable state the probe sequence is delivered. Conformance: every fuzzrx and faults history ends with the probe (reset, provision, complete packet, fragmented PDU on the same / aliasing / 255 id); probe packets are judged by the must-deliver clauses tagged C16 (Rx.CompleteDeliver, Rx.FirstAccept, Rx.Append, Rx.EndDelivers).", "6 C16"),
 "C17": ("MC_Memory: caller driving the five trait operations, every step checked against the GseMemory relations, Conservation and TakeReturnsLastSaved invariants. Conformance: random operation sequences and every TLC-generated behaviour of length 3 (thorough 4) replayed on SimpleGseMemory through the public trait with the memory projected after each call; judged by Mem.<op> relations, Mem.OneContextPerSlot, Mem.ContentsUntouched.", "6 C17"),
 "C18": ("Per-transition property: lattice records encap_preview / encap_frag_preview next to encap / encap_frag for the same inputs; judged by Preview.Agrees / FragPreview.Agrees. The model part (MC_Frag) only contributes the decision arithmetic both must follow.", "6 C18"),
 "C19": ("Per-transition property: every packet produced in chains, frames and ext runs is peeked alone and followed by further bytes; Peek.AgreesWithPacket compares with the label / frag id TLC reads from the bytes (the same fields the decap clauses use). MC_Wire checks the expectation operator.", "6 C19"),
 "C20": ("Per-transition property: utils structs are exercised on every packet of random encapsulator chains (parse -> description -> generate) and on synthetic descriptions; judged by Utils.ParseAgreesWithCodec, Utils.GenerateIsSerialize, Utils.GenerateInvertsParse, and the decap clauses on generated complete packets. MC_Wire checks SerializePkt/Parse.", "6 C20"),
}

def main():
    checks = []
    for pid in sorted(PLAN):
        plan = PLAN[pid]
        text, ref = TEXT[pid]
        mcs = ", ".join(plan["mc"]) or "-"
        drv = ", ".join(sorted({d[0] for d in plan["drivers"]}))
        checks.append({
            "property_id": pid,
            "quick_cmd": "bin/check %s quick" % pid,
            "thorough_cmd": "bin/check %s thorough" % pid,
            "evidence_file": "/verif/evidence/%s.json" % pid,
            "replay_cmd_template": "bin/check %s --replay {path}" % pid,
            "engine": "tla-trace-validation",
            "level_claimed": {"category": "model_checking", "text": text, "design_ref": "DESIGN.md section " + ref},
            "level_note": "Bounded: MC models use small constants / the boundary lattice; conformance covers the recorded executions only (lattice + seeded random + fault families, VERIF_SEED). Trusted: TLC/SANY + CommunityModules overrides, the harness projection (byte equality, buffers identified by unique length, clone-drain of the real memory, catch_unwind), my transcription of the property text into TLA+ clauses.",
            "technique": "explicit TLA+ spec (%s) model-checked by TLC + trace validation of recorded executions of the real crate (drivers: %s) against TraceGse.tla" % (mcs, drv),
        })
    m = {
        "version": 1,
        "setup_cmd": "cd /verif && bin/check selftest",
        "hooks": {
            "guard": "dvb_gse_rust_verif",
            "enable": "harness/.cargo/config.toml passes --cfg dvb_gse_rust_verif to rustc for the harness and its path dependency /repo (no source hook is currently needed: all linearization points are public-call returns)",
            "baseline_off_cmd": "cd /repo && cargo test --workspace --no-fail-fast --offline",
            "source_commits": [],
            "add_only": True,
        },
        "engines": [
            {"name": "tla-trace-validation", "path": "/verif/bin/check", "serves_properties": sorted(PLAN),
             "kind_free_text": "python orchestrator: builds /verif/harness against /repo's working tree, runs TLC on the MC_* models of /verif/spec, runs the Rust drivers to record ndjson traces of the real crate, validates them with TLC against TraceGse.tla, attributes verdicts to properties"}],
        "checks": checks,
        "notes": "All 20 properties are decided by the TLA+ specification in /verif/spec (DESIGN.md). 16 genuine defects were found and repaired with fix: commits in /repo (known_findings.json).",
        "not_applicable": [],
    }
    json.dump(m, open(os.path.join(ROOT, "MANIFEST.json"), "w"), indent=1)

if __name__ == "__main__":
    main()
