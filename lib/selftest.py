"""Binding self-test: the trace specification must reject corrupted traces.
For one canned trace per driver family, one recorded field is corrupted (or one
event deleted); each mutation must produce a verdict.  A trace spec that
accepts a corrupted trace is a broken check (DESIGN 5.4)."""
import json, os, shutil


def _load(path):
    return [json.loads(l) for l in open(path)]


def _dump(events, path, pdus):
    with open(path, "w") as fh:
        for e in events:
            fh.write(json.dumps(e, separators=(",", ":")) + "\n")
    shutil.copy(pdus, path + ".pdus")


def _first(events, pred):
    for i, e in enumerate(events):
        if pred(e):
            return i
    raise RuntimeError("selftest: no event to mutate")


def selftest(chk):
    wdir = os.path.join(chk.WORK, "selftest")
    shutil.rmtree(wdir, ignore_errors=True)
    os.makedirs(wdir)
    chk.build()
    for mod in ("TraceGse", "MC_Header", "MC_Labels", "MC_Memory", "MC_Frag", "MC_Rx", "MC_Wire", "MC_Crc"):
        r = chk.sh(["tla-sany", mod + ".tla"], cwd=chk.SPEC)
        if "Semantic errors" in r.stdout or "Fatal" in r.stdout or "*** Errors" in r.stdout:
            print("TOOL-ERROR: SANY rejects", mod, r.stdout[-800:])
            return 2
    trace, _ = chk.run_driver("chains", [], "quick", 1, wdir, only=None)
    ev = _load(trace)
    # keep scenarios 19..44 (PDUs of 26..1000 bytes, all label kinds): enough material, fast to validate
    lo = _first(ev, lambda e: e["ev"] == "begin" and e["scn"] == 19)
    hi = _first(ev, lambda e: e["ev"] == "begin" and e["scn"] == 45)
    ev = ev[lo:hi]
    base = os.path.join(wdir, "base.ndjson")
    _dump(ev, base, trace + ".pdus")
    v = chk.validate(base, wdir)
    if v["nbad"] != 0:
        print("selftest: canned trace is not clean on this tree (%d verdicts) - mutations are judged on top of it" % v["nbad"])
    base_bad = v["nbad"]

    def is_inter_decap(e):
        return e["ev"] == "decap" and e["res"]["t"] == "fragmented" and e["bytes"][0] < 64

    muts = []

    def m_consumed(es):
        i = _first(es, lambda e: e["ev"] == "decap" and e["res"]["t"] == "completed")
        es[i]["res"]["consumed"] += 1
    muts.append(("decap consumed + 1", m_consumed))

    def m_payload(es):
        i = _first(es, lambda e: e["ev"] == "encap" and e["res"]["t"] == "fragmented" and len(e["wire"]) > 16)
        es[i]["wire"][-1] ^= 1
    muts.append(("payload byte of a first fragment flipped", m_payload))

    def m_sent(es):
        i = _first(es, lambda e: e["ev"] == "encap_frag" and e["res"]["t"] == "fragmented")
        es[i]["res"]["ctx"]["sent"] -= 1
    muts.append(("returned context sent - 1", m_sent))

    def m_label(es):
        i = _first(es, lambda e: e["ev"] == "decap" and e["res"]["t"] == "completed" and e["res"]["meta"]["label"]["k"] == "six")
        es[i]["res"]["meta"]["label"]["b"][0] ^= 0x40
    muts.append(("delivered label byte changed", m_label))

    def m_memop(es):
        i = _first(es, lambda e: e["ev"] == "decap" and len(e["memops"]) == 2)
        es[i]["memops"].pop()
    muts.append(("one memory-trait call removed from the log", m_memop))

    def m_delete(es):
        i = _first(es, is_inter_decap)
        del es[i]
    muts.append(("one intermediate decap event deleted", m_delete))

    def m_crc(es):
        i = _first(es, lambda e: e["ev"] == "encap" and e["res"]["t"] == "fragmented")
        es[i]["res"]["ctx"]["crc"][1] ^= 4
    muts.append(("CRC in the returned context changed", m_crc))

    def m_pdu(es):
        i = _first(es, lambda e: e["ev"] == "decap" and e["res"]["t"] == "completed" and len(e["res"]["pdu"]) > 2)
        es[i]["res"]["pdu"][1] ^= 0x10
    muts.append(("delivered PDU byte changed", m_pdu))

    ok = True
    for k, (name, fn) in enumerate(muts):
        es = json.loads(json.dumps(ev))
        fn(es)
        p = os.path.join(wdir, "mut%d.ndjson" % k)
        _dump(es, p, trace + ".pdus")
        try:
            v = chk.validate(p, wdir)
            caught = v["nbad"] > base_bad
            what = sorted(v["bad_by"])[:4]
        except chk.ToolError as e:
            caught, what = True, ["rejected as unconsumable: " + str(e)[:80]]
        print("selftest: %-48s %s %s" % (name, "rejected" if caught else "ACCEPTED (binding broken)", what))
        ok = ok and caught
    shutil.rmtree(wdir, ignore_errors=True)
    if not ok:
        print("TOOL-ERROR: the trace specification accepted a corrupted trace")
        return 2
    print("selftest OK")
    return 0
