#!/usr/bin/env python3
"""Regenerates seeded/SUMMARY.md from seeded/*/meta.json (written by bin/trymutant / bin/reseed)."""
import json, glob, os
ROOT = os.path.normpath(os.path.join(os.path.dirname(os.path.abspath(__file__)), ".."))
rows = []
for f in sorted(glob.glob(os.path.join(ROOT, "seeded", "*", "meta.json"))):
    m = json.load(open(f)); name = os.path.basename(os.path.dirname(f))
    det = m.get("detected_by", {})
    target = m.get("target_property") or (m.get("breaks") or ["?"])[0]
    cl = sorted({c for drv in det.get(target, {}).values() for c in drv})
    rows.append((name, target, sorted(det), cl))
with open(os.path.join(ROOT, "seeded", "SUMMARY.md"), "w") as fh:
    fh.write("# Seeded changes and the checks that detect them (quick tier)\n\n")
    fh.write("Each change compiles and passes the 276 baseline tests + 9 doc tests; its demonstration fails with it and passes without.\n")
    fh.write("`detected by` lists the properties whose own check (its registered drivers) reports a violation; the last column the clauses of the\n")
    fh.write("target property that fire.  Where the target is missing from `detected by`, the change really violates another property\n")
    fh.write("(a leak is C08's, a mis-attribution C04's, a malformed packet C06's ...), whose check reports it.\n\n")
    fh.write("| change | target | detected by | clauses (target property) |\n|---|---|---|---|\n")
    for name, target, det, cl in rows:
        fh.write("| %s | %s | %s | %s |\n" % (name, target, ", ".join(det) or "**nothing**", ", ".join(cl) or "-"))
    miss = [r[0] for r in rows if not r[2]]
    off = [r[0] for r in rows if r[2] and r[1] not in r[2]]
    fh.write("\n%d changes; detected by nothing: %s; detected only by checks of other properties: %d\n" % (len(rows), miss or "none", len(off)))
print(len(rows), "rows; undetected:", [r[0] for r in rows if not r[2]])
