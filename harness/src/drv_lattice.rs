//! `lattice`: single-call boundary lattice for encap / encap_ext / encap_frag
//! and both previews, over the real constants (4095, 4097, 65535, header
//! sizes), all label kinds, protocol-type classes and prior sender states.
use crate::tx::*;
use crate::util::*;
use dvb_gse_rust::crc::DefaultCrc;
use dvb_gse_rust::gse_encap::{ContextFrag, Encapsulator};
use dvb_gse_rust::label::Label;

pub const LA6: Label = Label::SixBytesLabel([1, 2, 3, 4, 5, 6]);
pub const LB6: Label = Label::SixBytesLabel([0xB0, 0xB1, 0xB2, 0xB3, 0xB4, 0xB5]);
pub const LA3: Label = Label::ThreeBytesLabel([0x0A, 0x0B, 0x0C]);
pub const LB3: Label = Label::ThreeBytesLabel([0, 0, 0]);
pub const LZ6: Label = Label::SixBytesLabel([0, 0, 0, 0, 0, 0]);

fn dedup(mut v: Vec<usize>) -> Vec<usize> {
    v.sort();
    v.dedup();
    v
}

fn around(v: &mut Vec<usize>, c: isize, d: isize) {
    for k in -d..=d {
        if c + k >= 0 {
            v.push((c + k) as usize);
        }
    }
}

/// Sender prior states: how the encapsulator is prepared before the call under test.
#[derive(Clone, Copy, Debug, PartialEq)]
pub enum Prior {
    Fresh,
    SameLabel,  // previous packet carried the same label: substitution applies
    OtherLabel, // previous packet carried another label
    Disabled,
    MaxReached, // max-consecutive 1 and one re-use already emitted
}

pub fn prepare(out: &mut Out, enc: &mut Encapsulator<DefaultCrc>, prior: Prior, label: Label, small: &Pdu) {
    match prior {
        Prior::Fresh => {}
        Prior::SameLabel => {
            ev_encap(out, enc, small, 0, label, 0x0800, 64, None, None);
        }
        Prior::OtherLabel => {
            ev_encap(out, enc, small, 0, LB6, 0x0800, 64, None, None);
        }
        Prior::Disabled => {
            ev_encap(out, enc, small, 0, label, 0x0800, 64, None, None);
            ev_cfg(out, enc, Cfg::Disable);
        }
        Prior::MaxReached => {
            ev_cfg(out, enc, Cfg::EnableMax(1));
            ev_encap(out, enc, small, 0, label, 0x0800, 64, None, None);
            ev_encap(out, enc, small, 0, label, 0x0800, 64, None, None);
        }
    }
}

pub fn run(out: &mut Out, seed: u64, thorough: bool) {
    let mut rng = Rng::new(seed ^ 0x1A77);
    let labels: Vec<Label> =
        if thorough { vec![LA6, LA3, Label::Broadcast, Label::ReUse, LZ6, LB3] } else { vec![LA6, LA3, Label::Broadcast, Label::ReUse, LZ6] };

    // ---------------------------------------------------------------- encap
    for (li, label) in labels.iter().enumerate() {
        let ll = label.len() as isize;
        let mut plens: Vec<usize> = vec![0, 1, 26, 5000, 70000];
        around(&mut plens, 4093 - ll, if thorough { 3 } else { 2 });
        around(&mut plens, 65533 - ll, if thorough { 2 } else { 1 });
        if thorough {
            plens.extend([2, 3, 100, 4000, 4096, 4097, 65535, 65536]);
            for _ in 0..6 {
                plens.push(rng.range(0, 4200));
            }
        }
        for plen in dedup(plens) {
            let pdu = Pdu::random(out, plen, &mut rng);
            let mut blens: Vec<usize> = vec![0, 1, 2, 3, 4, 6, 7, 9, 10, 12, 13, 14, 100, 4096, 4097, 4098, 70000];
            around(&mut blens, plen as isize + 4 + ll, 1);
            if thorough {
                blens.extend([5, 8, 11, 15, 16, 20, 4090, 4095, 4099, 4100, 4101, 8192, 65535, 65536, 65537]);
                around(&mut blens, plen as isize + 7 + ll, 1);
                for _ in 0..4 {
                    blens.push(rng.range(0, 5000));
                }
            }
            let blens: Vec<usize> = dedup(blens).into_iter().filter(|b| *b <= 70000).collect();
            let ptypes: Vec<u16> = vec![0x0800];
            for blen in blens {
                for pt in &ptypes {
                    out.begin("lattice", Obj::new().str("what", "encap"));
                    let mut enc = Encapsulator::new(DefaultCrc {});
                    ev_encap(out, &mut enc, &pdu, (li * 37 + 5) as u8, *label, *pt, blen, None, None);
                    ev_preview(out, &pdu, *label, *pt, blen);
                }
            }
        }
    }

    // ------------------------- label content: one non-zero byte at every position, all ones, the 3-byte zero label
    let mut odd: Vec<Label> = vec![];
    for i in 0..6 {
        let mut b = [0u8; 6];
        b[i] = 1 + i as u8;
        odd.push(Label::SixBytesLabel(b));
        let mut c = [0u8; 6];
        c[i] = 0xFF;
        odd.push(Label::SixBytesLabel(c));
    }
    odd.push(Label::SixBytesLabel([0xFF; 6]));
    for i in 0..3 {
        let mut b = [0u8; 3];
        b[i] = 0x80;
        odd.push(Label::ThreeBytesLabel(b));
    }
    odd.extend([Label::ThreeBytesLabel([0, 0, 0]), Label::ThreeBytesLabel([0xFF; 3])]);
    let odd_pdus: Vec<Pdu> = [5usize, 26, 4090].iter().map(|n| Pdu::random(out, *n, &mut rng)).collect();
    for label in &odd {
        for (pi, blen) in [(0usize, 64usize), (1, 12), (1, 40), (2, 4097)] {
            out.begin("lattice", Obj::new().str("what", "label_content"));
            let mut enc = Encapsulator::new(DefaultCrc {});
            ev_encap(out, &mut enc, &odd_pdus[pi], 3, *label, 0x0800, blen, None, None);
            ev_preview(out, &odd_pdus[pi], *label, 0x0800, blen);
            // and once more: the second packet to the same label is a re-use
            ev_encap(out, &mut enc, &odd_pdus[0], 3, *label, 0x0800, 64, None, None);
        }
    }

    // -------------------------------------- protocol-type classes and prior states
    let ptypes: Vec<u16> = if thorough {
        vec![0, 0x0081, 0x00FF, 0x0100, 0x0101, 0x03FF, 0x05FF, 0x0600, 0x0601, 0x86DD, 0xFFFE, 0xFFFF]
    } else {
        vec![0, 0x0081, 0x00FF, 0x0100, 0x05FF, 0x0600, 0x86DD, 0xFFFF]
    };
    let priors = [Prior::Fresh, Prior::SameLabel, Prior::OtherLabel, Prior::Disabled, Prior::MaxReached];
    let small_sizes: Vec<(usize, usize)> =
        vec![(0, 64), (26, 64), (26, 20), (26, 12), (26, 3), (4090, 4097), (4090, 5000), (4100, 8000), (65528, 4097), (65534, 4097), (70000, 70000)];
    let small = Pdu::random(out, 3, &mut rng);
    let sized: Vec<Pdu> = small_sizes.iter().map(|(p, _)| Pdu::random(out, *p, &mut rng)).collect();
    for label in [LA6, LA3, Label::Broadcast, Label::ReUse, LZ6] {
        for prior in priors {
            if (label == Label::Broadcast || label == Label::ReUse || label == LZ6) && prior != Prior::Fresh && prior != Prior::OtherLabel {
                continue;
            }
            for pt in &ptypes {
                for (si, (plen, blen)) in small_sizes.iter().enumerate() {
                    if !thorough && *plen > 100 && *pt != 0x0600 && *pt != 0x0100 {
                        continue;
                    }
                    let pdu = &sized[si];
                    out.begin("lattice", Obj::new().str("what", "encap_prior"));
                    let mut enc = Encapsulator::new(DefaultCrc {});
                    prepare(out, &mut enc, prior, label, &small);
                    ev_encap(out, &mut enc, pdu, 9, label, *pt, *blen, None, None);
                    // the packet after a (possibly failed) call: atomicity seen behaviourally
                    ev_encap(out, &mut enc, &small, 9, label, 0x0800, 64, None, None);
                    if prior == Prior::Fresh {
                        ev_preview(out, pdu, label, *pt, *blen);
                    }
                }
            }
        }
    }

    // ------------- the size lattice again for senders whose label memory matters: the label is written in
    // full, or replaced by the re-use marker (every length then counts no label bytes), or written in full
    // because the maximum of consecutive re-uses is reached
    let lat_priors: Vec<Prior> = if thorough { vec![Prior::SameLabel, Prior::MaxReached, Prior::Disabled, Prior::OtherLabel] } else { vec![Prior::SameLabel, Prior::MaxReached] };
    for label in [LA6, LA3] {
        let ll = label.len() as isize;
        for prior in &lat_priors {
            let mut plens: Vec<usize> = vec![0, 1, 3, 8, 26];
            around(&mut plens, 4093 - ll, 1);
            around(&mut plens, 4093, 1);
            // the 16-bit total length counts the label as written: 65533 bytes fit after a substitution
            around(&mut plens, 65533 - ll, 1);
            around(&mut plens, 65533, 1);
            if thorough {
                plens.extend([2, 4, 5, 6, 7, 9, 10, 100, 5000, 65527, 65530]);
            }
            for plen in dedup(plens) {
                let pdu = Pdu::random(out, plen, &mut rng);
                let mut blens: Vec<usize> = if plen > 60000 { vec![0, 6, 7, 9, 10, 12, 13, 16, 100] } else { (0..=17).collect() };
                blens.extend([4096, 4097, 4098]);
                for c in [plen as isize + 4, plen as isize + 4 + ll, plen as isize + 7, plen as isize + 7 + ll] {
                    around(&mut blens, c, 1);
                }
                for blen in dedup(blens) {
                    if blen > 70000 {
                        continue;
                    }
                    out.begin("lattice", Obj::new().str("what", "encap_prior_lattice"));
                    let mut enc = Encapsulator::new(DefaultCrc {});
                    prepare(out, &mut enc, *prior, label, &small);
                    ev_encap(out, &mut enc, &pdu, 11, label, 0x0800, blen, None, None);
                    ev_encap(out, &mut enc, &small, 11, label, 0x0800, 64, None, None);
                }
            }
        }
    }

    // ------------------------------------------------------------ encap_frag
    let plens: Vec<usize> = if thorough {
        vec![0, 1, 2, 5, 26, 100, 4000, 4090, 4096, 5000, 65526, 65535, 65536, 70000]
    } else {
        vec![0, 1, 26, 4090, 5000, 65535, 70000]
    };
    let enc = Encapsulator::new(DefaultCrc {});
    for plen in plens {
        let pdu = Pdu::random(out, plen, &mut rng);
        let mut sents: Vec<usize> = vec![0, 1];
        around(&mut sents, plen as isize, 2);
        around(&mut sents, plen as isize / 2, 0);
        around(&mut sents, plen as isize - 4090, 1);
        if thorough {
            around(&mut sents, plen as isize - 4096, 2);
            sents.push(rng.range(0, plen.max(1)));
        }
        if plen > 65535 {
            // hand-made contexts close to the 16-bit limit of the cursor
            sents.extend([61441, 61442, 65000, 65534, 65535]);
        }
        for sent in dedup(sents) {
            if sent > 65535 {
                continue;
            }
            let rem = plen as isize - sent as isize;
            let mut blens: Vec<usize> = vec![0, 1, 2, 3, 4, 5, 6, 7, 8, 13, 100, 4096, 4097, 4098, 70000];
            around(&mut blens, rem + 7, 1);
            around(&mut blens, rem + 3, 1);
            if thorough {
                blens.extend([9, 10, 12, 4090, 4095, 4099, 4100, 8192, 65535, 65536]);
            }
            for blen in dedup(blens) {
                if blen > 70000 {
                    continue;
                }
                out.begin("lattice", Obj::new().str("what", "encap_frag"));
                let ctx = ContextFrag::new((sent % 256) as u8, rng.next() as u32, sent as u16);
                ev_encap_frag(out, &enc, &pdu, &ctx, blen);
                ev_frag_preview(out, &pdu, &ctx, blen);
            }
        }
    }
}
