//! `ext`: encap_ext over extension chains of every class, complete and
//! fragmented (buffer cut at every offset), against receivers whose manager
//! knows all / some / none of the mandatory ids.  Serves C13 (and C06 C19).
use crate::craft::*;
use crate::drv_lattice::{LA3, LA6};
use crate::rx::*;
use crate::tx::*;
use crate::util::*;
use dvb_gse_rust::crc::DefaultCrc;
use dvb_gse_rust::gse_encap::{EncapStatus, Encapsulator};
use dvb_gse_rust::label::Label;

fn ext_of(class: usize, rng: &mut Rng) -> ExtSpec {
    match class {
        0 => ExtSpec { id: 0x0100 + rng.below(256) as u16, data: vec![] },
        1 => ExtSpec { id: 0x0200 + rng.below(256) as u16, data: rng.bytes(2) },
        2 => ExtSpec { id: 0x0300 + rng.below(256) as u16, data: rng.bytes(4) },
        3 => ExtSpec { id: 0x0400 + rng.below(256) as u16, data: rng.bytes(6) },
        4 => ExtSpec { id: 0x0500 + rng.below(256) as u16, data: rng.bytes(8) },
        5 => ExtSpec { id: 0x0042, data: rng.bytes(3) }, // known non-final mandatory
        6 => ExtSpec { id: 0x0044, data: vec![] },       // known non-final mandatory, no data
        7 => ExtSpec { id: 0x0045, data: rng.bytes(8) }, // known non-final mandatory, 8 bytes
        9 => ExtSpec { id: 0x0046, data: vec![] },       // final mandatory without data (like NCR 0x0081)
        _ => ExtSpec { id: 0x0043, data: rng.bytes(2) }, // final mandatory
    }
}

fn mgr_kind(k: usize) -> TableMgr {
    match k {
        0 => TableMgr {
            known: vec![(0x0042, false, 3), (0x0043, true, 2), (0x0044, false, 0), (0x0045, false, 8), (0x0046, true, 0), (0x0081, true, 0),
                        (0x0000, false, 1), (0x00FF, false, 2), (0x0047, false, 255)],
        },
        1 => TableMgr { known: vec![(0x0042, false, 3), (0x0081, true, 0)] },
        _ => TableMgr { known: vec![] },
    }
}

#[allow(clippy::too_many_arguments)]
fn one(out: &mut Out, rng: &mut Rng, exts: &[ExtSpec], ptype: u16, label: Label, plen: usize, buflen: usize, mk: usize, what: &str) {
    one_s(out, rng, exts, ptype, label, plen, buflen, mk, what, false)
}

/// `subst`: a complete packet with the same label precedes, so that the encapsulator replaces the
/// label of the packet under test by the re-use marker
#[allow(clippy::too_many_arguments)]
fn one_s(out: &mut Out, rng: &mut Rng, exts: &[ExtSpec], ptype: u16, label: Label, plen: usize, buflen: usize, mk: usize, what: &str, subst: bool) {
    let pdu = Pdu::random(out, plen, rng);
    let mgr = mgr_kind(mk);
    let mut rx = mk_rx(out, "ext", what, 2, plen.max(8) + (mk % 2), 2, mgr, true);
    rx.note_id(33);
    let mut enc = Encapsulator::new(DefaultCrc {});
    if subst {
        let small = Pdu::random(out, 4, rng);
        let t = ev_encap(out, &mut enc, &small, 32, label, 0x0800, 64, None, None);
        if reported_len(&t.res).is_some() {
            feed(out, &mut rx, &t.wire, vec![]);
        }
    }
    let t = ev_encap(out, &mut enc, &pdu, 33, label, ptype, buflen, Some(exts), None);
    let mut ctx = match &t.res {
        Some(Ok(EncapStatus::CompletedPkt(_))) => {
            rx.ev_peek(out, &t.wire, true);
            feed(out, &mut rx, &t.wire, vec![]);
            None
        }
        Some(Ok(EncapStatus::FragmentedPkt(_, c))) => {
            rx.ev_peek(out, &t.wire, true);
            feed(out, &mut rx, &t.wire, vec![]);
            Some(*c)
        }
        _ => None,
    };
    let mut guard = 0;
    while let Some(c) = ctx {
        guard += 1;
        if guard > 20 {
            break;
        }
        let t = ev_encap_frag(out, &enc, &pdu, &c, if guard % 2 == 1 { rng.range(8, 30) } else { 4097 });
        ctx = match &t.res {
            Some(Ok(EncapStatus::FragmentedPkt(_, c2))) => {
                feed(out, &mut rx, &t.wire, vec![]);
                Some(*c2)
            }
            Some(Ok(EncapStatus::CompletedPkt(_))) => {
                feed(out, &mut rx, &t.wire, vec![]);
                None
            }
            _ => Some(c),
        };
    }
    rx.ev_drain(out);
}

pub fn run(out: &mut Out, seed: u64, thorough: bool) {
    let mut rng = Rng::new(seed ^ 0xE87);
    let labels = [LA6, LA3, Label::Broadcast];
    // single extensions of every class, then chains of 2..4
    let mut chains: Vec<Vec<usize>> = (0..10).map(|c| vec![c]).collect();
    chains.push(vec![1, 9]);
    chains.push(vec![5, 0, 9]);
    let nch = if thorough { 120 } else { 30 };
    for _ in 0..nch {
        let n = rng.range(2, 4);
        let mut c: Vec<usize> = (0..n).map(|_| rng.below(8)).collect();
        if rng.chance(1, 3) {
            c[n - 1] = 8; // final mandatory in last position
        }
        chains.push(c);
    }
    for (ci, classes) in chains.iter().enumerate() {
        let exts: Vec<ExtSpec> = classes.iter().map(|c| ext_of(*c, &mut rng)).collect();
        let last_class = *classes.last().unwrap();
        let last_final = last_class == 8 || last_class == 9;
        let label = labels[ci % 3];
        let ptype: u16 = if last_class == 8 { 0x0043 } else if last_class == 9 { 0x0046 } else { *rng.pick(&[0x0600u16, 0x0800, 0xFFFF]) };
        let extlen: usize = exts.iter().map(|e| 2 + e.data.len()).sum::<usize>() - if last_final { 2 } else { 0 };
        // short PDUs matter after a final extension without data: nothing may follow the chain
        let plen = if last_class == 9 { ci % 3 } else { rng.range(0, 30) };
        let complete_len = 4 + label.len() + extlen + plen;
        for mk in 0..3 {
            // complete packet, exact and larger buffer
            one(out, &mut rng, &exts, ptype, label, plen, complete_len + (mk % 2) * 9, mk, "complete");
        }
        // fragmentation: the buffer cut at every offset inside and after the extension area
        let first_hdr = 7 + label.len();
        let lo = first_hdr.saturating_sub(2);
        let step = if thorough { 1 } else { 3 };
        let mut b = lo;
        while b < complete_len {
            one(out, &mut rng, &exts, ptype, label, plen, b, (b + ci) % 3, "fragmented");
            b += step;
        }
        // the same with the label replaced by the re-use marker (a packet with that label precedes)
        if label != Label::Broadcast {
            one_s(out, &mut rng, &exts, ptype, label, plen, complete_len - label.len(), 0, "complete_reuse", true);
            let mut b = first_hdr.saturating_sub(label.len() + 1);
            while b + label.len() < complete_len {
                one_s(out, &mut rng, &exts, ptype, label, plen, b, 0, "fragmented_reuse", true);
                b += if thorough { 2 } else { 5 };
            }
        }
        // a PDU that cannot be sent complete even in a large buffer
        if ci % 6 == 0 {
            one(out, &mut rng, &exts, ptype, label, 4090, 4097, 0, "long");
        }
    }
    // extension ids at the edges of every class: first and last optional id of each H-LEN, first and last
    // mandatory id; a mandatory extension as long as a receiver's manager can describe (255 bytes)
    let edge: Vec<ExtSpec> = vec![
        ExtSpec { id: 0x0100, data: vec![] },
        ExtSpec { id: 0x01FF, data: vec![] },
        ExtSpec { id: 0x0200, data: rng.bytes(2) },
        ExtSpec { id: 0x02FF, data: rng.bytes(2) },
        ExtSpec { id: 0x0300, data: rng.bytes(4) },
        ExtSpec { id: 0x03FF, data: rng.bytes(4) },
        ExtSpec { id: 0x0400, data: rng.bytes(6) },
        ExtSpec { id: 0x04FF, data: rng.bytes(6) },
        ExtSpec { id: 0x0500, data: rng.bytes(8) },
        ExtSpec { id: 0x05FF, data: rng.bytes(8) },
        ExtSpec { id: 0x0000, data: rng.bytes(1) },
        ExtSpec { id: 0x00FF, data: rng.bytes(2) },
        ExtSpec { id: 0x0047, data: rng.bytes(255) },
    ];
    for (i, e) in edge.iter().enumerate() {
        let label = labels[i % 3];
        let plen = 9 + i;
        let complete_len = 4 + label.len() + 2 + e.data.len() + plen;
        one(out, &mut rng, std::slice::from_ref(e), 0x0800, label, plen, complete_len, 0, "edge_id_complete");
        one(out, &mut rng, std::slice::from_ref(e), 0x0600, label, plen, complete_len - 3, 0, "edge_id_fragmented");
        // two in a row: the id is also read back as "next type" after another extension
        let two = [ExtSpec { id: 0x0211, data: vec![7, 7] }, e.clone()];
        one(out, &mut rng, &two, 0xFFFF, label, plen, complete_len + 4, 0, "edge_id_second");
    }
    // storage one to three bytes short of the PDU (and exactly as long), for chains of every closing kind: a type
    // field, a final mandatory extension with and without data.  The receiver must refuse without panicking and
    // give the buffer back; with an exact-size storage it must deliver
    let closings: Vec<(Vec<ExtSpec>, u16)> = vec![
        (vec![ExtSpec { id: 0x0211, data: vec![1, 2] }], 0x0800),
        (vec![ExtSpec { id: 0x0042, data: vec![1, 2, 3] }], 0x0800),
        (vec![ExtSpec { id: 0x0043, data: vec![5, 6] }], 0x0043),
        (vec![ExtSpec { id: 0x0046, data: vec![] }], 0x0046),
        (vec![ExtSpec { id: 0x0211, data: vec![1, 2] }, ExtSpec { id: 0x0046, data: vec![] }], 0x0046),
        (vec![ExtSpec { id: 0x0042, data: vec![1, 2, 3] }, ExtSpec { id: 0x0043, data: vec![5, 6] }], 0x0043),
    ];
    for (ci, (exts, ptype)) in closings.iter().enumerate() {
        for short in 0..=3usize {
            for fragmented in [false, true] {
                let plen = 20 + ci;
                let storage = plen - short;
                let pdu = Pdu::random(out, plen, &mut rng);
                let mut rx = mk_rx(out, "ext", "tight_storage", 2, storage, 1, mgr_kind(0), true);
                rx.note_id(40);
                let mut enc = Encapsulator::new(DefaultCrc {});
                let extlen: usize = exts.iter().map(|e| 2 + e.data.len()).sum::<usize>() - if *ptype < 0x0100 { 2 } else { 0 };
                // fragmented: the first fragment carries half of the PDU; when the storage is exactly as long as the
                // PDU it carries all but one byte (payload + extension bytes exceed the storage, the payload does not)
                let buf = if !fragmented { 200 } else if short == 0 { 7 + 3 + extlen + plen - 1 } else { 7 + 3 + extlen + plen / 2 };
                let t = ev_encap(out, &mut enc, &pdu, 40, LA3, *ptype, buf, Some(exts), None);
                let ctx = match &t.res {
                    Some(Ok(EncapStatus::CompletedPkt(_))) => {
                        feed(out, &mut rx, &t.wire, vec![]);
                        None
                    }
                    Some(Ok(EncapStatus::FragmentedPkt(_, c))) => {
                        feed(out, &mut rx, &t.wire, vec![]);
                        Some(*c)
                    }
                    _ => None,
                };
                if let Some(c) = ctx {
                    let t = ev_encap_frag(out, &enc, &pdu, &c, 4097);
                    if reported_len(&t.res).is_some() {
                        feed(out, &mut rx, &t.wire, vec![]);
                    }
                }
                // the receiver still works
                let small = Pdu::random(out, storage.min(5), &mut rng);
                let t = ev_encap(out, &mut enc, &small, 41, LA6, 0x0800, 64, None, None);
                if reported_len(&t.res).is_some() {
                    feed(out, &mut rx, &t.wire, vec![]);
                }
                rx.ev_drain(out);
            }
        }
    }
    // very long chains (more extensions than a byte can count) and chains in which the same extension - id and data -
    // occurs more than once
    for n in [255usize, 256, 257, 300] {
        let exts: Vec<ExtSpec> = (0..n).map(|i| ExtSpec { id: 0x0100 + (i % 200) as u16, data: vec![] }).collect();
        one(out, &mut rng, &exts, 0x0800, LA3, 20, 4 + 3 + 2 * n + 20, 2, "long_chain");
        one(out, &mut rng, &exts, 0x0800, LA3, 20, 7 + 3 + 2 * n + 22 + 5, 2, "long_chain_frag");
    }
    let ea = ExtSpec { id: 0x0211, data: vec![0xA1, 0xA2] };
    let eb = ExtSpec { id: 0x0322, data: vec![1, 2, 3, 4] };
    for chain in [vec![ea.clone(), ea.clone()], vec![ea.clone(), eb.clone(), ea.clone()], vec![eb.clone(), eb.clone(), eb.clone()], vec![ea.clone(), ea.clone(), eb.clone()]] {
        let extlen: usize = chain.iter().map(|e| 2 + e.data.len()).sum();
        one(out, &mut rng, &chain, 0x0800, LA6, 15, 4 + 6 + extlen + 15, 2, "repeated_ext");
        one(out, &mut rng, &chain, 0x86DD, LA6, 15, 7 + 6 + extlen + 5, 2, "repeated_ext_frag");
    }
    // the reserved all-zero label with every kind of chain closing: refused, nothing written, nothing remembered
    for (exts, ptype) in [(vec![ExtSpec { id: 0x0046, data: vec![] }], 0x0046u16), (vec![ExtSpec { id: 0x0043, data: vec![5, 6] }], 0x0043), (vec![ExtSpec { id: 0x0211, data: vec![1, 2] }], 0x0800)] {
        let pdu = Pdu::random(out, 12, &mut rng);
        out.begin("ext", Obj::new().str("what", "zero_label_ext").boolean("lock", false));
        let mut enc = Encapsulator::new(DefaultCrc {});
        ev_encap(out, &mut enc, &pdu, 5, Label::SixBytesLabel([0; 6]), ptype, 100, Some(&exts), None);
        ev_encap(out, &mut enc, &pdu, 5, Label::SixBytesLabel([0; 6]), ptype, 100, Some(&exts), None);
        ev_encap(out, &mut enc, &pdu, 5, LA6, 0x0800, 100, None, None);
    }
    // a final mandatory extension takes the place of the protocol type on the wire, but the total length still
    // counts two bytes for it: PDUs at the 16-bit limit, just below and just above
    for (ei, (exts, ptype)) in [(vec![ExtSpec { id: 0x0046, data: vec![] }], 0x0046u16), (vec![ExtSpec { id: 0x0043, data: vec![5, 6] }], 0x0043), (vec![ExtSpec { id: 0x0211, data: vec![1, 2] }], 0x0800)].iter().enumerate() {
        for (label, ll) in [(LA3, 3usize), (LA6, 6), (Label::Broadcast, 0)] {
            for d in -2i64..=2 {
                let plen = (65533 - ll as i64 + d) as usize;
                let pdu = Pdu::random(out, plen, &mut rng);
                out.begin("ext", Obj::new().str("what", "final_ext_near_limit").boolean("lock", false));
                let mut enc = Encapsulator::new(DefaultCrc {});
                ev_encap(out, &mut enc, &pdu, (40 + ei) as u8, label, *ptype, 4097, Some(exts), None);
                // the packet after it (a failed call leaves no trace)
                let small = Pdu::random(out, 4, &mut rng);
                ev_encap(out, &mut enc, &small, 3, label, 0x0800, 64, None, None);
            }
        }
    }
    // mandatory extensions longer than 255 bytes: a sender may build them (the receiver's manager cannot describe
    // them, so nothing is fed); every length the sender reports must still be the length it wrote
    for n in [256usize, 257, 300, 511, 512, 1000, 2040, 2045, 2500, 4000, 4085, 4090, 5000, 65534, 65536, 66000] {
        let e = [ExtSpec { id: 0x0048, data: rng.bytes(n) }];
        for plen in [20usize, 3000] {
            let pdu = Pdu::random(out, plen, &mut rng);
            if n > 60000 && plen > 100 {
                continue;
            }
            for buf in [4 + 3 + 2 + n + plen, 4097, 100, 7 + 3 + 2 + n, 7 + 3 + 2 + n + 5, (n % 256) + 30, 8000, 70000] {
                if n > 60000 && !(buf == 4097 || buf == 70000 || buf == 4 + 3 + 2 + n + plen) {
                    continue;
                }
                out.begin("ext", Obj::new().str("what", "long_mandatory").boolean("lock", false));
                let mut enc = Encapsulator::new(DefaultCrc {});
                ev_encap(out, &mut enc, &pdu, 3, LA3, 0x0800, buf, Some(&e), None);
            }
        }
    }
    // plain encap with a signalling protocol type (a final mandatory extension without data in the type
    // field): PDUs of 0, 1, 2, 5 bytes, complete and fragmented, to a receiver that knows it and one that does not
    for plen in [0usize, 1, 2, 5, 40] {
        for (mk, buf) in [(0usize, 64usize), (0, 12), (2, 64)] {
            let pdu = Pdu::random(out, plen, &mut rng);
            let mut rx = mk_rx(out, "ext", "signalling", 2, 64, 2, mgr_kind(mk), true);
            rx.note_id(7);
            let mut enc = Encapsulator::new(DefaultCrc {});
            let t = ev_encap(out, &mut enc, &pdu, 7, LA3, 0x0081, buf, None, None);
            let mut ctx = match &t.res {
                Some(Ok(EncapStatus::CompletedPkt(_))) => {
                    rx.ev_peek(out, &t.wire, true);
                    feed(out, &mut rx, &t.wire, vec![]);
                    None
                }
                Some(Ok(EncapStatus::FragmentedPkt(_, c))) => {
                    feed(out, &mut rx, &t.wire, vec![]);
                    Some(*c)
                }
                _ => None,
            };
            let mut guard = 0;
            while let Some(c) = ctx {
                guard += 1;
                if guard > 10 {
                    break;
                }
                let t = ev_encap_frag(out, &enc, &pdu, &c, 30);
                ctx = match &t.res {
                    Some(Ok(EncapStatus::FragmentedPkt(_, c2))) => {
                        feed(out, &mut rx, &t.wire, vec![]);
                        Some(*c2)
                    }
                    Some(Ok(EncapStatus::CompletedPkt(_))) => {
                        feed(out, &mut rx, &t.wire, vec![]);
                        None
                    }
                    _ => None,
                };
            }
            rx.ev_drain(out);
        }
    }
    // the crate's own managers: SignalisationMandatoryExtensionHeaderManager knows 0x0081 / 0x0082 as final
    // extensions without data, SimpleMandatoryExtensionHeaderManager knows nothing
    for (which, ptype) in [(0usize, 0x0081u16), (0, 0x0082), (1, 0x0081), (0, 0x0083)] {
        for plen in [0usize, 1, 7, 40] {
            for buf in [64usize, 13] {
                let pdu = Pdu::random(out, plen, &mut rng);
                let table = if which == 0 { TableMgr { known: vec![(0x0081, true, 0), (0x0082, true, 0)] } } else { TableMgr { known: vec![] } };
                out.begin("ext", Obj::new().str("what", "bundled_manager").boolean("lock", true).raw("rx", &jrxcfg(2, 64, &table).end()));
                let mut enc = Encapsulator::new(DefaultCrc {});
                let mut wires: Vec<Vec<u8>> = vec![];
                let t = ev_encap(out, &mut enc, &pdu, 9, LA6, ptype, buf, None, None);
                let mut ctx = match &t.res {
                    Some(Ok(EncapStatus::CompletedPkt(_))) => {
                        wires.push(t.wire.clone());
                        None
                    }
                    Some(Ok(EncapStatus::FragmentedPkt(_, c))) => {
                        wires.push(t.wire.clone());
                        Some(*c)
                    }
                    _ => None,
                };
                // one packet at a time: the trace must stay in lock-step (encap event, then its decap)
                macro_rules! run_rx {
                    ($rx:expr) => {{
                        let rx = $rx;
                        rx.note_id(9);
                        rx.ev_provision(out, 64);
                        rx.ev_provision(out, 65);
                        for w in wires.drain(..) {
                            feed(out, rx, &w, vec![]);
                        }
                        let mut guard = 0;
                        while let Some(c) = ctx {
                            guard += 1;
                            if guard > 10 {
                                break;
                            }
                            let t = ev_encap_frag(out, &enc, &pdu, &c, 25);
                            ctx = match &t.res {
                                Some(Ok(EncapStatus::FragmentedPkt(_, c2))) => {
                                    feed(out, rx, &t.wire, vec![]);
                                    Some(*c2)
                                }
                                Some(Ok(EncapStatus::CompletedPkt(_))) => {
                                    feed(out, rx, &t.wire, vec![]);
                                    None
                                }
                                _ => None,
                            };
                        }
                        rx.ev_drain(out);
                    }};
                }
                if which == 0 {
                    let mut rx: Rx<DefaultCrc, dvb_gse_rust::header_extension::SignalisationMandatoryExtensionHeaderManager> =
                        Rx::with_manager(2, 64, DefaultCrc {}, dvb_gse_rust::header_extension::SignalisationMandatoryExtensionHeaderManager {});
                    run_rx!(&mut rx);
                } else {
                    let mut rx: Rx<DefaultCrc, dvb_gse_rust::header_extension::SimpleMandatoryExtensionHeaderManager> =
                        Rx::with_manager(2, 64, DefaultCrc {}, dvb_gse_rust::header_extension::SimpleMandatoryExtensionHeaderManager {});
                    run_rx!(&mut rx);
                }
            }
        }
    }
    // combinations encap_ext must refuse
    let bad: Vec<(Vec<usize>, u16)> = vec![
        (vec![0], 0x0043),       // ptype < 0x100 but the last extension is optional
        (vec![1, 2], 0x0081),    // idem, chain of two
        (vec![8], 0x0044),       // final mandatory extension whose id differs from the ptype
        (vec![5], 0x0041),       // mandatory last, id differs
        (vec![0], 0x0100),       // ptype in the extension range
        (vec![2], 0x05FF),
    ];
    // the protocol type equals the id of the last *optional* extension (never a final mandatory one)
    for id in [0x0100u16, 0x0101, 0x01FF, 0x0200, 0x05FF] {
        let dlen = 2 * ((id >> 8) as usize - 1);
        let exts = vec![ExtSpec { id, data: vec![0x5A; dlen] }];
        one(out, &mut rng, &exts, id, LA6, 10, 80, 0, "refused_same_id");
        let exts2 = vec![ExtSpec { id: 0x0211, data: vec![1, 2] }, ExtSpec { id, data: vec![0x5A; dlen] }];
        one(out, &mut rng, &exts2, id, LA3, 12, 80, 0, "refused_same_id");
    }
    // the protocol type (below 0x0100) equals the id of an extension that is NOT the last one; the last one is
    // mandatory with another id, or optional: nothing decodable can be written
    for (ids, ptype) in [(vec![0x0010u16, 0x0300, 0x0020], 0x0010u16), (vec![0x0043, 0x0044], 0x0043), (vec![0x0043, 0x0211], 0x0043), (vec![0x0046, 0x0042, 0x0045], 0x0046)] {
        let exts: Vec<ExtSpec> = ids
            .iter()
            .map(|id| ExtSpec { id: *id, data: if *id >= 0x0100 { vec![0x5A; 2 * ((*id >> 8) as usize - 1)] } else { vec![] } })
            .collect();
        one(out, &mut rng, &exts, ptype, LA6, 10, 80, 0, "refused_earlier_id");
        one(out, &mut rng, &exts, ptype, LA3, 40, 30, 0, "refused_earlier_id");
    }
    for (classes, ptype) in bad {
        let exts: Vec<ExtSpec> = classes.iter().map(|c| ext_of(*c, &mut rng)).collect();
        for mk in 0..2 {
            one(out, &mut rng, &exts, ptype, LA6, 10, 80, mk, "refused");
            one(out, &mut rng, &exts, ptype, LA3, 40, 25, mk, "refused_frag");
        }
    }
    // receivers see packets with unknown mandatory extensions at several places in a chain
    for k in 0..(if thorough { 60 } else { 12 }) {
        let mut rx = mk_rx(out, "ext", "unknown_mandatory", 2, 64, 2, mgr_kind(1), false);
        let pdu = rng.bytes(10);
        let mut p = complete(&pdu, &[1, 2, 3], false, if k % 2 == 0 { 0x0099 } else { 0x0211 });
        if k % 5 == 4 {
            // the unknown mandatory id is the last thing in the packet
            p.ptype = 0x0099;
            p.payload = vec![];
        }
        p.chain = match k % 5 {
            4 => vec![],
            0 => vec![0x08, 0x00],
            1 => vec![0xAA, 0xBB, 0x00, 0x99, 0x08, 0x00],
            2 => vec![1, 2, 3, 0x08, 0x00],
            _ => vec![0xAA, 0xBB, 0x00, 0x42, 1, 2, 3, 0x00, 0x77, 0x08, 0x00],
        };
        let bytes = p.ser();
        let mut framed = bytes.clone();
        framed.extend(complete(&[1, 2], &[], false, 0x0800).ser());
        feed(out, &mut rx, &framed, vec![]);
        feed(out, &mut rx, &framed[bytes.len().min(framed.len())..], vec![]);
        rx.ev_drain(out);
    }
}
