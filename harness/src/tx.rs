//! Sender-side recording: every public call on the Encapsulator becomes one
//! ndjson event with arguments, result and *trivial* projections (byte
//! equality of buffers, PartialEq of the encapsulator).  No expected value is
//! computed here; all judgement is done by TLC on the trace.
use crate::util::*;
use dvb_gse_rust::crc::{CrcCalculator, DefaultCrc};
use dvb_gse_rust::gse_encap::{
    encap_frag_preview, encap_preview, ContextFrag, EncapError, EncapMetadata, EncapPreview,
    EncapStatus, Encapsulator,
};
use dvb_gse_rust::header_extension::Extension;
use dvb_gse_rust::label::Label;
use std::panic::AssertUnwindSafe;

#[derive(Clone, Debug)]
pub struct Pdu {
    /// 1-based index in the PDU registry file
    pub id: usize,
    pub bytes: Vec<u8>,
}

impl Pdu {
    pub fn new(out: &mut Out, bytes: Vec<u8>) -> Pdu {
        let id = out.reg_pdu(&bytes);
        Pdu { id, bytes }
    }
    pub fn random(out: &mut Out, len: usize, rng: &mut Rng) -> Pdu {
        // cheap generator for long PDUs, fully random bytes for short ones
        let bytes = if len <= 256 {
            rng.bytes(len)
        } else {
            let (a, b) = (rng.byte() | 1, rng.byte());
            (0..len).map(|i| ((a as usize * i + b as usize + 7 * (i / 251)) % 256) as u8).collect()
        };
        Pdu::new(out, bytes)
    }
}

pub fn jlabel(l: &Label) -> String {
    let (k, b): (&str, &[u8]) = match l {
        Label::SixBytesLabel(b) => ("six", &b[..]),
        Label::ThreeBytesLabel(b) => ("three", &b[..]),
        Label::Broadcast => ("bc", &[]),
        Label::ReUse => ("ru", &[]),
    };
    Obj::new().str("k", k).bytes("b", b).end()
}

#[derive(Clone, Debug)]
pub struct ExtSpec {
    pub id: u16,
    pub data: Vec<u8>,
}
pub fn jexts(e: &[ExtSpec]) -> String {
    jlist(
        &e.iter()
            .map(|x| Obj::new().num("id", x.id as usize).bytes("data", &x.data).end())
            .collect::<Vec<_>>(),
    )
}

pub fn jctx(c: &ContextFrag) -> String {
    Obj::new()
        .num("id", c.frag_id() as usize)
        .raw("crc", &j32(c.crc()))
        .num("sent", c.len_pdu_frag() as usize)
        .end()
}

pub fn encap_err_name(e: &EncapError) -> &'static str {
    match e {
        EncapError::ErrorSizeBuffer => "ErrorSizeBuffer",
        EncapError::ErrorPduLength => "ErrorPduLength",
        EncapError::ErrorProtocolType => "ErrorProtocolType",
        EncapError::ErrorInvalidLabel => "ErrorInvalidLabel",
        EncapError::ErrorNoExtensionFound => "ErrorNoExtensionFound",
        EncapError::ErrorFinalMandatoryExtensionHeader => "ErrorFinalMandatoryExtensionHeader",
    }
}

pub type EncRes = Option<Result<EncapStatus, EncapError>>; // None = panic

pub fn jencres(r: &EncRes) -> String {
    match r {
        None => Obj::new().str("t", "panic").end(),
        Some(Err(e)) => Obj::new().str("t", "err").str("e", encap_err_name(e)).end(),
        Some(Ok(EncapStatus::CompletedPkt(n))) => {
            Obj::new().str("t", "completed").num("len", *n as usize).end()
        }
        Some(Ok(EncapStatus::FragmentedPkt(n, c))) => {
            Obj::new().str("t", "fragmented").num("len", *n as usize).raw("ctx", &jctx(c)).end()
        }
    }
}

pub fn jprevres(r: &Option<Result<EncapPreview, EncapError>>) -> String {
    match r {
        None => Obj::new().str("t", "panic").end(),
        Some(Err(e)) => Obj::new().str("t", "err").str("e", encap_err_name(e)).end(),
        Some(Ok(p)) => {
            // PktType's module is private: name the kind through its Debug form
            let k = format!("{:?}", p.pkt_type());
            let kind = match k.as_str() {
                "CompletePkt" => "complete",
                "FirstFragPkt" => "first",
                "IntermediateFragPkt" => "inter",
                "EndFragPkt" => "end",
                _ => "unknown",
            };
            Obj::new()
                .str("t", "ok")
                .str("kind", kind)
                .num("pkt_len", p.pkt_len() as usize)
                .num("pdu_len", p.pdu_len())
                .end()
        }
    }
}

pub fn fill_pattern(n: usize, salt: u8) -> Vec<u8> {
    (0..n).map(|i| (i as u8).wrapping_mul(37).wrapping_add(salt) | 0x10).collect()
}

pub fn reported_len(r: &EncRes) -> Option<usize> {
    match r {
        Some(Ok(EncapStatus::CompletedPkt(n))) => Some(*n as usize),
        Some(Ok(EncapStatus::FragmentedPkt(n, _))) => Some(*n as usize),
        _ => None,
    }
}

pub fn build_exts(specs: &[ExtSpec]) -> Option<Vec<Extension>> {
    let mut v = vec![];
    for s in specs {
        match cu("extnew", || Extension::new(s.id, &s.data)) {
            Ok(Ok(e)) => v.push(e),
            _ => return None,
        }
    }
    Some(v)
}

pub struct TxOut {
    pub res: EncRes,
    /// the first `reported length` bytes of the buffer (clamped to the buffer)
    pub wire: Vec<u8>,
}

/// Generic over the CRC calculator so that a recording calculator can be used.
#[allow(clippy::too_many_arguments)]
pub fn ev_encap<C: CrcCalculator + Clone + PartialEq>(
    out: &mut Out,
    enc: &mut Encapsulator<C>,
    pdu: &Pdu,
    fragid: u8,
    label: Label,
    ptype: u16,
    buflen: usize,
    exts: Option<&[ExtSpec]>,
    extra: Option<(&str, String)>,
) -> TxOut {
    let mut buf = fill_pattern(buflen, 0x5A);
    let before = buf.clone();
    let enc_before = enc.clone();
    let md = EncapMetadata::new(ptype, label);
    let res: EncRes = match exts {
        None => cu("encap", AssertUnwindSafe(|| enc.encap(&pdu.bytes, fragid, md, &mut buf))).ok(),
        Some(specs) => match build_exts(specs) {
            Some(v) => {
                cu("encap", AssertUnwindSafe(|| enc.encap_ext(&pdu.bytes, fragid, md, &mut buf, v)))
                    .ok()
            }
            None => return TxOut { res: None, wire: vec![] },
        },
    };
    let state_same = *enc == enc_before;
    let buf_same = buf == before;
    let n = reported_len(&res).unwrap_or(0).min(buflen);
    let wire = buf[..n].to_vec();
    let tail_ok = buf[n..] == before[n..];
    let mut o = Obj::new()
        .str("ev", "encap")
        .str("fn", if exts.is_some() { "encap_ext" } else { "encap" })
        .num("pdu", pdu.id)
        .num("fragid", fragid as usize)
        .raw("label", &jlabel(&label))
        .num("ptype", ptype as usize)
        .num("buflen", buflen)
        .raw("exts", &jexts(exts.unwrap_or(&[])))
        .raw("res", &jencres(&res))
        .bytes("wire", &wire)
        .boolean("tail_ok", tail_ok)
        .boolean("buf_same", buf_same)
        .boolean("state_same", state_same);
    if let Some((k, v)) = extra {
        o = o.raw(k, &v);
    }
    out.emit(&o.end());
    TxOut { res, wire }
}

pub fn ev_encap_frag<C: CrcCalculator + Clone + PartialEq>(
    out: &mut Out,
    enc: &Encapsulator<C>,
    pdu: &Pdu,
    ctx: &ContextFrag,
    buflen: usize,
) -> TxOut {
    let mut buf = fill_pattern(buflen, 0xC3);
    let before = buf.clone();
    let enc_before = enc.clone();
    let res: EncRes =
        cu("encap_frag", AssertUnwindSafe(|| enc.encap_frag(&pdu.bytes, ctx, &mut buf))).ok();
    let state_same = *enc == enc_before;
    let buf_same = buf == before;
    let n = reported_len(&res).unwrap_or(0).min(buflen);
    let wire = buf[..n].to_vec();
    let tail_ok = buf[n..] == before[n..];
    let line = Obj::new()
        .str("ev", "encap_frag")
        .num("pdu", pdu.id)
        .raw("ctx", &jctx(ctx))
        .num("buflen", buflen)
        .raw("res", &jencres(&res))
        .bytes("wire", &wire)
        .boolean("tail_ok", tail_ok)
        .boolean("buf_same", buf_same)
        .boolean("state_same", state_same)
        .end();
    out.emit(&line);
    TxOut { res, wire }
}

/// encap_preview next to encap on a *fresh* encapsulator (no substitution can
/// apply), same PDU, metadata and buffer size.
pub fn ev_preview(out: &mut Out, pdu: &Pdu, label: Label, ptype: u16, buflen: usize) {
    let buf = fill_pattern(buflen, 0x11);
    let md = EncapMetadata::new(ptype, label);
    let prev = cu("preview", AssertUnwindSafe(|| encap_preview(&pdu.bytes, md, &buf))).ok();
    let mut enc = Encapsulator::new(DefaultCrc {});
    let mut buf2 = buf.clone();
    let res: EncRes =
        cu("encap", AssertUnwindSafe(|| enc.encap(&pdu.bytes, 0, md, &mut buf2))).ok();
    let n = reported_len(&res).unwrap_or(0).min(buflen);
    let line = Obj::new()
        .str("ev", "preview")
        .num("pdulen", pdu.bytes.len())
        .raw("label", &jlabel(&label))
        .num("ptype", ptype as usize)
        .num("buflen", buflen)
        .raw("prev", &jprevres(&prev))
        .raw("enc", &jencres(&res))
        .bytes("wire", &buf2[..n.min(16)])
        .end();
    out.emit(&line);
}

pub fn ev_frag_preview(out: &mut Out, pdu: &Pdu, ctx: &ContextFrag, buflen: usize) {
    let buf = fill_pattern(buflen, 0x22);
    let prev = cu("preview", AssertUnwindSafe(|| encap_frag_preview(&pdu.bytes, ctx, &buf))).ok();
    let enc = Encapsulator::new(DefaultCrc {});
    let mut buf2 = buf.clone();
    let res: EncRes =
        cu("encap_frag", AssertUnwindSafe(|| enc.encap_frag(&pdu.bytes, ctx, &mut buf2))).ok();
    let n = reported_len(&res).unwrap_or(0).min(buflen);
    let line = Obj::new()
        .str("ev", "frag_preview")
        .num("pdulen", pdu.bytes.len())
        .raw("ctx", &jctx(ctx))
        .num("buflen", buflen)
        .raw("prev", &jprevres(&prev))
        .raw("enc", &jencres(&res))
        .bytes("wire", &buf2[..n.min(16)])
        .end();
    out.emit(&line);
}

#[derive(Clone, Copy, Debug)]
pub enum Cfg {
    Reset,
    Disable,
    Enable,
    EnableMax(u8),
}

/// the CRC calculator is replaced (by an equal one): nothing else about the encapsulator may change
pub fn ev_set_crc(out: &mut Out, enc: &mut Encapsulator<dvb_gse_rust::crc::DefaultCrc>) {
    enc.set_crc_calculator(dvb_gse_rust::crc::DefaultCrc {});
    let _ = enc.get_crc_calculator();
    out.emit(&Obj::new().str("ev", "cfg").str("op", "set_crc").num("n", 0).end());
}

pub fn ev_cfg<C: CrcCalculator>(out: &mut Out, enc: &mut Encapsulator<C>, c: Cfg) {
    let (op, n) = match c {
        Cfg::Reset => {
            enc.reset_last_label();
            ("reset", 0)
        }
        Cfg::Disable => {
            enc.disable_re_use_label();
            ("disable", 0)
        }
        Cfg::Enable => {
            enc.enable_re_use_label();
            ("enable", 0)
        }
        Cfg::EnableMax(n) => {
            enc.enable_re_use_label_with_max_consecutive(n);
            ("enable_max", n as usize)
        }
    };
    out.emit(&Obj::new().str("ev", "cfg").str("op", op).num("n", n).end());
}
