//! Receiver-side drivers: `fuzzrx` (arbitrary bytes, C05 C08 C16), `faults`
//! (faulty fragment trains, C03 C16), `interleave` (C07), `frames` (C10).
use crate::craft::*;
use crate::drv_lattice::{LA3, LA6};
use crate::rx::*;
use crate::tx::*;
use crate::util::*;
use dvb_gse_rust::crc::DefaultCrc;
use dvb_gse_rust::gse_encap::{EncapStatus, Encapsulator};
use dvb_gse_rust::label::Label;

const PDU_SIZE: usize = 64;

#[derive(Clone, Copy, Debug)]
pub enum RxState {
    Fresh,        // buffers free, no context
    NoStorage,    // nothing provisioned
    OpenSame,     // open context on id 4
    OpenAlias,    // open context on id 4 + slots (aliases id 4)
    OpenOther,    // open context on id 5
    AllInCtx,     // every buffer attached to a context, free list empty
    FullFree,     // slot occupied and free list at capacity
    Label6,       // a six-byte label remembered
    AfterBc,      // last packet was broadcast
}

pub const ALL_STATES: [RxState; 9] = [
    RxState::Fresh,
    RxState::NoStorage,
    RxState::OpenSame,
    RxState::OpenAlias,
    RxState::OpenOther,
    RxState::AllInCtx,
    RxState::FullFree,
    RxState::Label6,
    RxState::AfterBc,
];

/// slot count of the receivers built by rx_in_state / run_faulty; drivers vary it (2 or 3) per scenario so that
/// slot arithmetic is exercised for a count that is not a power of two
static CUR_SLOTS: std::sync::atomic::AtomicUsize = std::sync::atomic::AtomicUsize::new(2);
pub fn slots() -> usize {
    CUR_SLOTS.load(std::sync::atomic::Ordering::Relaxed)
}
pub fn set_slots(n: usize) {
    CUR_SLOTS.store(n, std::sync::atomic::Ordering::Relaxed)
}

/// Build a receiver in the given state through the public API.
pub fn rx_in_state(out: &mut Out, drv: &str, what: &str, st: RxState, mgr: TableMgr) -> Rx<DefaultCrc> {
    let nbuf = match st {
        RxState::NoStorage => 0,
        RxState::AllInCtx => 2,
        _ => 2,
    };
    let mut rx = mk_rx(out, drv, what, slots(), PDU_SIZE, nbuf, mgr, false);
    let pdu: Vec<u8> = (0..30).collect();
    let first = |id: u8| train(&pdu, &[1, 2, 3, 4, 5, 6], false, 0x0800, id, &[10])[0].ser();
    match st {
        RxState::Fresh | RxState::NoStorage => {}
        RxState::OpenSame => {
            feed(out, &mut rx, &first(4), vec![]);
        }
        RxState::OpenAlias => {
            feed(out, &mut rx, &first(4 + slots() as u8), vec![]);
        }
        RxState::OpenOther => {
            feed(out, &mut rx, &first(5), vec![]);
        }
        RxState::AllInCtx => {
            feed(out, &mut rx, &first(4), vec![]);
            feed(out, &mut rx, &first(5), vec![]);
        }
        RxState::FullFree => {
            // capacity is not known to the harness: provision until refused, open a context, top up
            for i in 2..12 {
                if rx.ev_provision(out, PDU_SIZE + i).is_some() {
                    break;
                }
            }
            feed(out, &mut rx, &first(4), vec![]);
            rx.ev_provision(out, PDU_SIZE + 20);
        }
        RxState::Label6 => {
            feed(out, &mut rx, &complete(&pdu[..4], &[1, 2, 3, 4, 5, 6], false, 0x0800).ser(), vec![]);
        }
        RxState::AfterBc => {
            feed(out, &mut rx, &complete(&pdu[..4], &[], false, 0x0800).ser(), vec![]);
        }
    }
    rx
}

fn std_mgr() -> TableMgr {
    TableMgr { known: vec![(0x0081, true, 0), (0x0082, true, 0), (0x0042, false, 3), (0x0043, true, 2)] }
}

fn adversarial_tail(kind: usize, n: usize, rng: &mut Rng) -> Vec<u8> {
    let mut v: Vec<u8> = match kind {
        0 => vec![0; n],
        1 => vec![0xFF; n],
        2 => {
            // extension ids of every H-LEN class, repeated
            let pat = [0x01u8, 0x00, 0x02, 0x11, 0x03, 0x22, 0x04, 0x33, 0x05, 0x44, 0x00, 0x42, 0x00, 0x81, 0x00, 0x99];
            (0..n).map(|i| pat[i % pat.len()]).collect()
        }
        3 => {
            // frag id 4, huge total length, optional-extension type field, zero label
            let pat = [4u8, 0xFF, 0xFF, 0x01, 0x01, 0, 0, 0, 0, 0, 0, 0x01, 0x01];
            (0..n).map(|i| pat[i % pat.len()]).collect()
        }
        4 => {
            // frag id 4, total length 0/1, ptype 0x0800, then zeros
            let pat = [4u8, 0, 1, 0x08, 0x00, 0, 0, 0, 0, 0, 0];
            (0..n).map(|i| if i < pat.len() { pat[i] } else { 0 }).collect()
        }
        _ => rng.bytes(n),
    };
    v.truncate(n);
    v
}

pub fn fuzzrx(out: &mut Out, seed: u64, thorough: bool) {
    let mut rng = Rng::new(seed ^ 0xF022);
    // ---- (i) all byte strings of length 0..2 in several states; length 3 as families
    let states: Vec<RxState> = if thorough { ALL_STATES.to_vec() } else { vec![RxState::Fresh, RxState::OpenSame, RxState::Label6] };
    for st in &states {
        let mut rx = rx_in_state(out, "fuzzrx", "short01", *st, std_mgr());
        feed(out, &mut rx, &[], vec![]);
        rx.ev_peek(out, &[], false);
        for b0 in 0..=255u8 {
            feed(out, &mut rx, &[b0], vec![]);
            rx.ev_peek(out, &[b0], false);
        }
        probe(out, &mut rx, &mut rng, PDU_SIZE, 4, PDU_SIZE + 30);
        rx.ev_drain(out);
    }
    // length 2: all 65536 (thorough) or every header nibble x stride (quick), fresh state re-created per block
    let stride2 = if thorough { 1 } else { 37 };
    for st in &states {
        for b0 in 0..=255u16 {
            if !thorough && b0 % 16 != 0 && b0 % 16 != 15 && b0 % 16 != 7 {
                continue;
            }
            let mut rx = rx_in_state(out, "fuzzrx", "short2", *st, std_mgr());
            let mut b1 = (b0 as usize * 7) % stride2;
            while b1 < 256 {
                feed(out, &mut rx, &[b0 as u8, b1 as u8], vec![]);
                rx.ev_peek(out, &[b0 as u8, b1 as u8], false);
                b1 += stride2;
            }
            probe(out, &mut rx, &mut rng, PDU_SIZE, 4, PDU_SIZE + 30);
            rx.ev_drain(out);
        }
    }
    // length 3 exhaustively, recorded as families: for a fixed first byte, maximal runs of
    // (b1, b2) in lexicographic order with an identical observation
    families3(out, &states, thorough);

    // ---- (i') well-formed extension chains cut short: the packet (consistent GSE length) ends after every byte
    // of the chain area - inside extension data, right after it (no type field follows), inside the type field
    for first_id in [0x0042u16, 0x0043, 0x0081, 0x0100, 0x0211, 0x0322, 0x05FF, 0x0099] {
        for second in [0x0211u16, 0x0042, 0x0800] {
            // data of the first extension as the standard manager / the H-LEN table sizes it
            let d1 = match first_id {
                0x0042 => 3,
                0x0043 => 2,
                0x0081 | 0x0099 => 0,
                x => 2 * ((x >> 8) as usize).saturating_sub(1),
            };
            let mut chain: Vec<u8> = (0..d1).map(|i| 0xD0 + i as u8).collect();
            chain.extend(second.to_be_bytes());
            if second < 0x0600 {
                chain.extend(if second == 0x0042 { vec![1, 2, 3] } else { vec![1, 2] });
                chain.extend(0x0800u16.to_be_bytes());
            }
            chain.extend([0xEE, 0xEF, 0xF0]);
            for cut in 0..=chain.len() {
                for kind in [3u8, 2] {
                    let mut rx = rx_in_state(out, "fuzzrx", "cut_chain", RxState::Fresh, std_mgr());
                    let p = P { kind, lt: 1, fragid: 4, tl: 40, ptype: first_id, label: vec![0x0A, 0x0B, 0x0C], chain: chain[..cut].to_vec(), payload: vec![], crc: 0, gse_len: None };
                    let b = p.ser();
                    feed(out, &mut rx, &b, vec![]);
                    rx.ev_peek(out, &b, false);
                    // and the same bytes followed by another packet
                    let mut two = b.clone();
                    two.extend(complete(&[1, 2, 3], &[9, 9, 9], false, 0x0800).ser());
                    feed(out, &mut rx, &two, vec![]);
                    rx.ev_drain(out);
                }
            }
        }
    }

    // ---- (ii) headers x truncations x adversarial tails
    let mut lens: Vec<usize> = (0..=20).collect();
    lens.extend([21, 25, 26, 30, 31, 40, 63, 64, 65, 66, 67, 70, 71, 100, 255, 256, 1000, 4094, 4095]);
    let lstride = if thorough { 1 } else { 3 };
    let states2: Vec<RxState> = if thorough { ALL_STATES.to_vec() } else { vec![RxState::Fresh, RxState::OpenSame, RxState::OpenAlias, RxState::FullFree, RxState::NoStorage] };
    let mut k = 0usize;
    for nib in 0..16u16 {
        for (li, gl) in lens.iter().enumerate() {
            if (li + nib as usize) % lstride != 0 && *gl > 8 {
                continue;
            }
            for tailkind in 0..6 {
                if !thorough && (tailkind + li) % 2 == 1 && *gl > 12 {
                    continue;
                }
                k += 1;
                set_slots(2 + (k / 7) % 2);
                let st = states2[k % states2.len()];
                let mut rx = rx_in_state(out, "fuzzrx", "hdr_trunc", st, std_mgr());
                let h: u16 = (nib << 12) | (*gl as u16);
                let full = {
                    let mut v = h.to_be_bytes().to_vec();
                    v.extend(adversarial_tail(tailkind, *gl + 3, &mut rng));
                    v
                };
                let mut cuts: Vec<usize> = vec![2, 3, 4, 5, 7, 8, 9, 12, 13, 14, gl + 1, gl + 2, gl + 3, gl + 5];
                if *gl > 6 {
                    cuts.push(gl - 3);
                    cuts.push(gl / 2);
                }
                cuts.sort();
                cuts.dedup();
                for c in cuts {
                    if c >= 2 && c <= full.len() {
                        feed(out, &mut rx, &full[..c], vec![]);
                        rx.ev_peek(out, &full[..c], false);
                    }
                }
                probe(out, &mut rx, &mut rng, PDU_SIZE, if k % 2 == 0 { 4 } else { 255 }, PDU_SIZE + 30);
                rx.ev_drain(out);
            }
        }
    }

    // ---- (iii) random and mutated-valid packets
    let nhist = if thorough { 1500 } else { 250 };
    for i in 0..nhist {
        let st = ALL_STATES[i % ALL_STATES.len()];
        set_slots(2 + (i / 9) % 2);
        let mut rx = rx_in_state(out, "fuzzrx", "random", st, std_mgr());
        let steps = rng.range(1, 10);
        for _ in 0..steps {
            let bytes = random_packet(&mut rng);
            feed(out, &mut rx, &bytes, vec![]);
            if rng.chance(1, 3) {
                rx.ev_peek(out, &bytes, false);
            }
        }
        let id = *rng.pick(&[4u8, 4 + slots() as u8, 5, 255, 0]);
        probe(out, &mut rx, &mut rng, PDU_SIZE, id, PDU_SIZE + 30);
        rx.ev_drain(out);
    }
}

/// A random input: pure noise, a valid packet, or a mutated valid packet.
pub fn random_packet(rng: &mut Rng) -> Vec<u8> {
    let n = rng.range(0, 60);
    let pdu = rng.bytes(n);
    let label: Vec<u8> = match rng.below(4) {
        0 => vec![1, 2, 3, 4, 5, 6],
        1 => vec![0x0A, 0x0B, 0x0C],
        2 => vec![],
        _ => vec![0, 0, 0, 0, 0, 0],
    };
    let id = *rng.pick(&[4u8, 4 + slots() as u8, 5, 6, 255]);
    let reuse = rng.chance(1, 6);
    let ptype = *rng.pick(&[0x0800u16, 0x0600, 0xFFFF, 0x0081, 0x0042, 0x0043, 0x0099, 0x0100, 0x0211, 0x0544, 0x05FF, 0x01FF, 0x00FF, 0x0000]);
    let mut v = match rng.below(8) {
        0 => {
            let k = rng.range(0, 80);
            rng.bytes(k)
        }
        1 => complete(&pdu, &label, reuse, ptype).ser(),
        2..=5 => {
            let cuts = [rng.range(0, n / 2 + 1), rng.range(1, n / 2 + 1)];
            let t = train(&pdu, &label, reuse, ptype, id, &cuts);
            t[rng.below(t.len())].ser()
        }
        6 if rng.chance(1, 2) => {
            // a well-formed chain of optional extensions ending at a boundary protocol type
            let mut p = complete(&pdu, &label, reuse, *rng.pick(&[0x0100u16, 0x0211, 0x0322, 0x05FF, 0x04FF]));
            let dl = 2 * ((p.ptype >> 8) as usize - 1);
            let mut chain = rng.bytes(dl);
            chain.extend(rng.pick(&[0x0600u16, 0x0601, 0x0800, 0xFFFF, 0x0600]).to_be_bytes());
            p.chain = chain;
            p.ser()
        }
        6 => {
            // extension chain with random content
            let mut p = complete(&pdu, &label, reuse, *rng.pick(&[0x0100u16, 0x0211, 0x0322, 0x0433, 0x0544, 0x0042, 0x0043, 0x0081, 0x05FF, 0x04FF, 0x01FF]));
            let k = rng.range(0, 14);
            p.chain = rng.bytes(k);
            p.ser()
        }
        _ => {
            let mut p = complete(&pdu, &label, reuse, ptype);
            p.gse_len = Some(rng.range(0, 80) as u16);
            p.ser()
        }
    };
    // mutate
    match rng.below(6) {
        0 => {
            if !v.is_empty() {
                let i = rng.below(v.len());
                v[i] ^= 1 << rng.below(8);
            }
        }
        1 => {
            let c = rng.below(v.len() + 1);
            v.truncate(c);
        }
        2 => {
            let k = rng.range(1, 10);
            v.extend(rng.bytes(k))
        }
        _ => {}
    }
    if rng.chance(1, 40) {
        // up to 8 KiB
        let n = rng.range(100, 8192);
        let mut big = v.clone();
        big.extend(rng.bytes(n));
        if big.len() >= 2 && rng.chance(1, 2) {
            let gl = (big.len() - 2).min(4095) as u16;
            big[0] = (big[0] & 0xF0) | (gl >> 8) as u8;
            big[1] = (gl & 0xFF) as u8;
        }
        v = big;
    }
    v
}

/// Exhaustive 3-byte strings, as family events (see DESIGN §6 C05).
fn families3(out: &mut Out, states: &[RxState], thorough: bool) {
    for st in states {
        if !thorough && !matches!(st, RxState::Fresh | RxState::OpenSame) {
            continue;
        }
        let mut rx = rx_in_state(out, "fuzzrx", "short3", *st, std_mgr());
        rx.project = true;
        for b0 in 0..=255u8 {
            let mut run_start: Option<(u8, u8)> = None;
            let mut run_obs = String::new();
            let mut run_n = 0usize;
            let mut last = (0u8, 0u8);
            let mut mem_before = rx.jmem();
            for b1 in 0..=255u8 {
                for b2 in 0..=255u8 {
                    let bytes = [b0, b1, b2];
                    let r = cu("decap", std::panic::AssertUnwindSafe(|| rx.d.decap(&bytes)));
                    let p = cu("peek", std::panic::AssertUnwindSafe(|| rx.d.get_label_or_frag_id(&bytes)));
                    rx.d.memory.log.borrow_mut().clear();
                    let obs = match &r {
                        Err(_) => "panic".to_string(),
                        Ok(Ok((s, n))) => format!("ok:{}:{}", s.to_str(), n),
                        Ok(Err((e, n))) => format!("err:{}:{}", decap_err_name(e), n),
                    } + if p.is_err() { "|peekpanic" } else { "|peek" };
                    if run_start.is_none() {
                        run_start = Some((b1, b2));
                        run_obs = obs.clone();
                        run_n = 0;
                    } else if obs != run_obs {
                        emit_family(out, &mut rx, b0, run_start.unwrap(), last, run_n, &run_obs, &mut mem_before);
                        run_start = Some((b1, b2));
                        run_obs = obs.clone();
                        run_n = 0;
                    }
                    run_n += 1;
                    last = (b1, b2);
                }
            }
            emit_family(out, &mut rx, b0, run_start.unwrap(), last, run_n, &run_obs, &mut mem_before);
        }
        rx.ev_drain(out);
    }
}

#[allow(clippy::too_many_arguments)]
fn emit_family(out: &mut Out, rx: &mut Rx<DefaultCrc>, b0: u8, from: (u8, u8), to: (u8, u8), n: usize, obs: &str, mem_before: &mut String) {
    let mem_after = rx.jmem();
    let parts: Vec<&str> = obs.split('|').collect();
    let f: Vec<&str> = parts[0].split(':').collect();
    let (t, consumed) = match f[0] {
        "panic" => ("panic", 0usize),
        "ok" => (if f[1].starts_with("Padding") { "padding" } else { "ok" }, f[2].parse().unwrap_or(0)),
        _ => ("err", f[2].parse().unwrap_or(0)),
    };
    out.emit(
        &Obj::new()
            .str("ev", "decap_family")
            .num("b0", b0 as usize)
            .raw("from", &format!("[{},{}]", from.0, from.1))
            .raw("to", &format!("[{},{}]", to.0, to.1))
            .num("n", n)
            .str("t", t)
            .num("consumed", consumed)
            .boolean("peek_panic", parts[1] == "peekpanic")
            .boolean("mem_same", *mem_before == mem_after)
            .end(),
    );
    *mem_before = mem_after;
}

// ------------------------------------------------------------------ faults
/// like valid_train, but the intermediate fragments carry the whole PDU: the end packet holds only the CRC
fn valid_train_crc_only_end(rng: &mut Rng, n: usize, id: u8) -> (Vec<u8>, Vec<P>) {
    let pdu = rng.bytes(n);
    let label: Vec<u8> = if rng.chance(1, 2) { vec![1, 2, 3, 4, 5, 6] } else { vec![] };
    let a = rng.range(1, n / 3);
    let b = rng.range(1, n / 3);
    let t = train(&pdu, &label, false, 0x0800, id, &[a, b, n - a - b]);
    (pdu, t)
}

fn valid_train(rng: &mut Rng, n: usize, id: u8, reuse: bool) -> (Vec<u8>, Vec<P>) {
    let pdu = rng.bytes(n);
    let label: Vec<u8> = match rng.below(3) {
        0 => vec![1, 2, 3, 4, 5, 6],
        1 => vec![0x0A, 0x0B, 0x0C],
        _ => vec![],
    };
    let k = rng.range(1, 3);
    let mut cuts = vec![];
    let mut left = n;
    for _ in 0..k {
        let c = rng.range(if cuts.is_empty() { 0 } else { 1 }, (left / 2).max(1));
        cuts.push(c.min(left));
        left -= c.min(left);
    }
    let reuse = reuse && !label.is_empty();
    let t = train(&pdu, &label, reuse, *rng.pick(&[0x0800u16, 0x86DD, 0xFFFF]), id, &cuts);
    (pdu, t)
}

fn run_faulty(out: &mut Out, rng: &mut Rng, what: &str, prelude: &[Vec<u8>], pkts: &[Vec<u8>]) {
    set_slots(2 + out.scn % 2);
    let mut rx = mk_rx(out, "faults", what, slots(), PDU_SIZE, 2, std_mgr(), false);
    for p in prelude {
        feed(out, &mut rx, p, vec![]);
    }
    for p in pkts {
        feed(out, &mut rx, p, vec![]);
    }
    probe(out, &mut rx, rng, PDU_SIZE, 4, PDU_SIZE + 30);
    rx.ev_drain(out);
}

pub fn faults(out: &mut Out, seed: u64, thorough: bool) {
    set_slots(2);
    let mut rng = Rng::new(seed ^ 0xFA17);
    let ntrains = if thorough { 12 } else { 3 };
    for ti in 0..ntrains {
        let n = if thorough { rng.range(4, 40) } else { rng.range(6, 16) };
        let reuse = ti % 3 == 2;
        let (_pdu, t) = if ti % 3 == 1 { valid_train_crc_only_end(&mut rng, n.max(9), 4) } else { valid_train(&mut rng, n, 4, reuse) };
        let pk: Vec<Vec<u8>> = t.iter().map(|p| p.ser()).collect();
        // a re-use first fragment needs a remembered label
        let prelude: Vec<Vec<u8>> = if t[0].lt == 3 { vec![complete(&[1, 2], &[1, 2, 3, 4, 5, 6], false, 0x0800).ser()] } else { vec![] };
        // no fault
        run_faulty(out, &mut rng, "none", &prelude, &pk);
        // drop / dup / swap of each fragment
        for i in 0..pk.len() {
            let mut v = pk.clone();
            v.remove(i);
            run_faulty(out, &mut rng, "drop", &prelude, &v);
            let mut v = pk.clone();
            v.insert(i, pk[i].clone());
            run_faulty(out, &mut rng, "dup", &prelude, &v);
            if i + 1 < pk.len() {
                let mut v = pk.clone();
                v.swap(i, i + 1);
                run_faulty(out, &mut rng, "swap", &prelude, &v);
            }
        }
        // a copy of fragment i inserted at every other position (early end fragments, late first fragments ...)
        for i in 0..pk.len() {
            for j in 0..=pk.len() {
                if j == i || j == i + 1 {
                    continue;
                }
                let mut v = pk.clone();
                v.insert(j, pk[i].clone());
                run_faulty(out, &mut rng, "copy_to", &prelude, &v);
            }
        }
        // every single-bit flip of every packet (quick: every 3rd bit)
        for i in 0..pk.len() {
            for bit in 0..pk[i].len() * 8 {
                if !thorough && (bit + i + ti) % 3 != 0 {
                    continue;
                }
                let mut v = pk.clone();
                v[i][bit / 8] ^= 0x80 >> (bit % 8);
                run_faulty(out, &mut rng, "bitflip", &prelude, &v);
            }
        }
        // bursts of up to 32 bits (random pattern with both ends set) at sampled / all offsets
        let nb = if thorough { 400 } else { 60 };
        for _ in 0..nb {
            let i = rng.below(pk.len());
            let width = rng.range(2, 32);
            let total = pk[i].len() * 8;
            if total < width {
                continue;
            }
            let start = rng.below(total - width + 1);
            let mut v = pk.clone();
            for k in 0..width {
                let on = k == 0 || k == width - 1 || rng.chance(1, 2);
                if on {
                    let bit = start + k;
                    v[i][bit / 8] ^= 0x80 >> (bit % 8);
                }
            }
            run_faulty(out, &mut rng, "burst", &prelude, &v);
        }
        // truncation at every byte of every packet
        for i in 0..pk.len() {
            for c in 0..pk[i].len() {
                if !thorough && (c + i) % 2 == 1 && c > 4 {
                    continue;
                }
                let mut v = pk.clone();
                v[i].truncate(c);
                run_faulty(out, &mut rng, "truncate", &prelude, &v);
            }
        }
        // field replacement: frag id, total length, CRC
        for i in 0..t.len() {
            for fid in [0u8, 5, 4 + slots() as u8, 255] {
                let mut tt = t.clone();
                tt[i].fragid = fid;
                run_faulty(out, &mut rng, "set_fragid", &prelude, &tt.iter().map(|p| p.ser()).collect::<Vec<_>>());
            }
        }
        for tl in [0u16, 1, 2, t[0].tl.wrapping_sub(1), t[0].tl.wrapping_add(1), 65535, rng.next() as u16] {
            let mut tt = t.clone();
            tt[0].tl = tl;
            run_faulty(out, &mut rng, "set_tl", &prelude, &tt.iter().map(|p| p.ser()).collect::<Vec<_>>());
        }
        // the announced total length is wrong but the CRC is computed over exactly the fields and bytes
        // that are sent: only the length check can reject such a train
        for delta in [-5i32, -2, -1, 1, 2, 3, 6, 200] {
            let mut tt = t.clone();
            let tl2 = (t[0].tl as i32 + delta).max(0) as u16;
            if tl2 == t[0].tl {
                continue;
            }
            tt[0].tl = tl2;
            let last = tt.len() - 1;
            tt[last].crc = crc32_mpeg(&[&tl2.to_be_bytes(), &t[0].ptype.to_be_bytes(), &t[0].label, &_pdu]);
            run_faulty(out, &mut rng, "crafted_tl", &prelude, &tt.iter().map(|p| p.ser()).collect::<Vec<_>>());
        }
        let last = t.len() - 1;
        for crc in [0u32, 0xFFFF_FFFF, t[last].crc ^ 1, t[last].crc ^ 0x8000_0000, rng.next() as u32] {
            let mut tt = t.clone();
            tt[last].crc = crc;
            run_faulty(out, &mut rng, "set_crc", &prelude, &tt.iter().map(|p| p.ser()).collect::<Vec<_>>());
        }
        // double fault "duplicate + damage": a copy of fragment i whose GSE length field was rewritten to a small
        // value (a syntactically valid, shorter fragment of the same id), inserted right after the original
        for i in 0..pk.len() {
            let orig_gl = (((pk[i][0] & 0x0F) as usize) << 8) | pk[i][1] as usize;
            for g in [1usize, 2, 3, 4, 5, 6, orig_gl.saturating_sub(1)] {
                if g >= orig_gl || g == 0 {
                    continue;
                }
                for trunc in [true, false] {
                    let mut c = pk[i].clone();
                    c[0] = (c[0] & 0xF0) | (g >> 8) as u8;
                    c[1] = (g & 0xFF) as u8;
                    if trunc {
                        c.truncate(g + 2);
                    }
                    let mut v = pk.clone();
                    v.insert(i + 1, c);
                    run_faulty(out, &mut rng, "dup_short", &prelude, &v);
                }
            }
        }
        // a foreign, syntactically valid intermediate fragment of the same id carrying 1..4 bytes, at every position
        for j in 1..pk.len() {
            for n in 1..=4usize {
                let extra = P { kind: 0, lt: 3, fragid: t[0].fragid, tl: 0, ptype: 0, label: vec![], chain: vec![], payload: rng.bytes(n), crc: 0, gse_len: None }.ser();
                let mut v = pk.clone();
                v.insert(j, extra);
                run_faulty(out, &mut rng, "insert_short", &prelude, &v);
            }
        }
        // two faults combined
        let n2 = if thorough { 150 } else { 25 };
        for _ in 0..n2 {
            let mut v = pk.clone();
            for _ in 0..2 {
                match rng.below(4) {
                    0 if v.len() > 1 => {
                        let i = rng.below(v.len());
                        v.remove(i);
                    }
                    1 => {
                        let i = rng.below(v.len());
                        let c = v[i].clone();
                        v.insert(i, c);
                    }
                    2 if v.len() > 1 => {
                        let i = rng.below(v.len() - 1);
                        v.swap(i, i + 1);
                    }
                    _ => {
                        let i = rng.below(v.len());
                        if !v[i].is_empty() {
                            let b = rng.below(v[i].len() * 8);
                            v[i][b / 8] ^= 0x80 >> (b % 8);
                        }
                    }
                }
            }
            run_faulty(out, &mut rng, "double", &prelude, &v);
        }
        // trains of two PDUs spliced on one fragment id
        let (_p2, t2) = valid_train(&mut rng, n, 4, false);
        let pk2: Vec<Vec<u8>> = t2.iter().map(|p| p.ser()).collect();
        for cut in 1..pk.len() {
            for cut2 in 0..pk2.len() {
                let mut v: Vec<Vec<u8>> = pk[..cut].to_vec();
                v.extend(pk2[cut2..].to_vec());
                run_faulty(out, &mut rng, "splice", &prelude, &v);
            }
        }
        // an end fragment replayed after delivery, and after a restart
        let mut v = pk.clone();
        v.push(pk[pk.len() - 1].clone());
        v.push(pk[0].clone());
        v.push(pk[pk.len() - 1].clone());
        run_faulty(out, &mut rng, "replay_end", &prelude, &v);
    }
    // tiny PDUs (0..3 bytes, first fragment possibly empty, CRC-only end) with *every* announced total length
    // around the true one and a CRC computed over the fields actually sent
    for n in 0..=3usize {
        for label in [vec![1u8, 2, 3, 4, 5, 6], vec![7u8, 7, 7], vec![]] {
            let pdu = rng.bytes(n);
            let true_tl = (n + 2 + label.len()) as u16;
            for cuts in [vec![0usize], vec![n], vec![0, n]] {
                for tl2 in 0..=(true_tl + 3) {
                    if tl2 == true_tl && cuts.len() == 1 && cuts[0] == 0 {
                        continue;
                    }
                    let mut tt = train(&pdu, &label, false, 0x0800, 4, &cuts);
                    // drop empty intermediates (not well formed)
                    tt.retain(|p| !(p.kind == 0 && p.payload.is_empty()));
                    tt[0].tl = tl2;
                    let last = tt.len() - 1;
                    tt[last].crc = crc32_mpeg(&[&tl2.to_be_bytes(), &0x0800u16.to_be_bytes(), &label, &pdu]);
                    run_faulty(out, &mut rng, "tiny_crafted_tl", &[], &tt.iter().map(|p| p.ser()).collect::<Vec<_>>());
                }
            }
        }
    }
    // hand-built trains whose first fragment carries an extension chain of E bytes and leaves 0..E+1 PDU bytes
    // for the end packet (the total length counts no extension bytes; `encap_ext` never cuts that late)
    let chains_e: Vec<(u16, Vec<u8>)> = vec![
        (0x0211, [vec![1u8, 2], 0x0800u16.to_be_bytes().to_vec()].concat()),
        (0x0322, [vec![1u8, 2, 3, 4], 0x0800u16.to_be_bytes().to_vec()].concat()),
        (0x0042, [vec![1u8, 2, 3], 0x0800u16.to_be_bytes().to_vec()].concat()),
        (0x0211, [vec![1u8, 2], 0x0322u16.to_be_bytes().to_vec(), vec![5, 6, 7, 8], 0x0800u16.to_be_bytes().to_vec()].concat()),
    ];
    for (first_id, chain) in &chains_e {
        for label in [vec![1u8, 2, 3, 4, 5, 6], vec![7u8, 7, 7], vec![]] {
            for r in 0..=(chain.len() + 1) {
                let pdu = rng.bytes(24);
                let mut tt = train(&pdu, &label, false, 0x0800, 4, &[24 - r.min(24)]);
                tt[0].ptype = *first_id;
                tt[0].chain = chain.clone();
                run_faulty(out, &mut rng, "ext_first_late_cut", &[], &tt.iter().map(|p| p.ser()).collect::<Vec<_>>());
                // the same train into a receiver whose only storage is exactly as long as the PDU: the extension
                // bytes are not stored
                if r <= 2 {
                    let mut rx = mk_rx(out, "faults", "ext_first_tight", 2, 24, 1, std_mgr(), false);
                    rx.note_id(4);
                    for p in &tt {
                        feed(out, &mut rx, &p.ser(), vec![]);
                    }
                    rx.ev_drain(out);
                }
            }
        }
    }
    // label A is remembered; a train whose first fragment re-uses it ends badly (damaged trailer, wrong length, missing
    // fragment); a complete packet re-using A follows: fragments never touch the label memory, so it is delivered
    for dmg in 0..4usize {
        let la = vec![1u8, 2, 3, 4, 5, 6];
        let prelude = vec![complete(&[9, 9], &la, false, 0x0800).ser()];
        let pdu = rng.bytes(30);
        let mut tt = train(&pdu, &la, true, 0x0800, 4, &[10, 10]);
        let last = tt.len() - 1;
        match dmg {
            0 => tt[last].crc ^= 0x0400,
            1 => tt[last].payload.push(0x77),
            2 => {
                tt.remove(1);
            }
            _ => tt[1].payload[0] ^= 1,
        }
        let mut v: Vec<Vec<u8>> = tt.iter().map(|p| p.ser()).collect();
        v.push(complete(&[4, 5, 6, 7], &la, true, 0x0800).ser());
        run_faulty(out, &mut rng, "reuse_train_fails_then_reuse", &prelude, &v);
    }
    // a train that fills its storage to the last byte, then one more fragment of that id (intermediate or end):
    // refused, and the buffer comes back
    for extra_kind in [0u8, 1] {
        let mut rx = mk_rx(out, "faults", "exact_fill_then_more", 2, 40, 1, std_mgr(), false);
        rx.note_id(4);
        let pdu = rng.bytes(40);
        let tt = train(&pdu, &[7, 7, 7], false, 0x0800, 4, &[20, 20]);
        feed(out, &mut rx, &tt[0].ser(), vec![]);
        feed(out, &mut rx, &tt[1].ser(), vec![]);
        let more = P { kind: extra_kind, lt: 3, fragid: 4, tl: 0, ptype: 0, label: vec![], chain: vec![], payload: vec![1, 2, 3], crc: 9, gse_len: None };
        feed(out, &mut rx, &more.ser(), vec![]);
        feed(out, &mut rx, &tt[2].ser(), vec![]);
        probe(out, &mut rx, &mut rng, 40, 4, 40 + 9);
        rx.ev_drain(out);
    }
    // the same tiny PDUs (the empty one included) with a wrong CRC trailer, and with a right trailer but a damaged
    // protocol type / label / payload byte: never delivered
    for n in 0..=3usize {
        for label in [vec![1u8, 2, 3, 4, 5, 6], vec![7u8, 7, 7], vec![]] {
            let pdu = rng.bytes(n);
            for cuts in [vec![0usize], vec![n], vec![0, n]] {
                for dmg in 0..6usize {
                    let mut tt = train(&pdu, &label, false, 0x0800, 4, &cuts);
                    tt.retain(|p| !(p.kind == 0 && p.payload.is_empty()));
                    let last = tt.len() - 1;
                    match dmg {
                        0 => tt[last].crc ^= 1,
                        1 => tt[last].crc = 0,
                        2 => tt[last].crc = !tt[last].crc,
                        3 => tt[0].ptype ^= 0x0100,
                        4 if !label.is_empty() => tt[0].label[0] ^= 0x40,
                        5 if n > 0 => {
                            let i = tt.iter().position(|p| !p.payload.is_empty()).unwrap_or(0);
                            if !tt[i].payload.is_empty() {
                                tt[i].payload[0] ^= 0x08;
                            }
                        }
                        _ => tt[last].crc ^= 0x8000_0000,
                    }
                    run_faulty(out, &mut rng, "tiny_damaged", &[], &tt.iter().map(|p| p.ser()).collect::<Vec<_>>());
                }
            }
        }
    }
    // storage > 65535 bytes and a train longer than 65535 bytes (16-bit length arithmetic)
    big_train(out, &mut rng);
}

fn big_train(out: &mut Out, rng: &mut Rng) {
    // storage larger than 65535 bytes and a train whose payload exceeds the announced total
    // length by exactly 65536 bytes, with a CRC that matches the bytes actually received:
    // 16-bit length arithmetic would accept it
    let size = 70000;
    let mut rx = mk_rx(out, "faults", "big_storage", 1, size, 1, std_mgr(), false);
    let label = [1u8, 2, 3];
    let ptype = 0x0800u16;
    let first_payload: Vec<u8> = rng.bytes(10);
    let mut all: Vec<u8> = first_payload.clone();
    let mut inters: Vec<Vec<u8>> = vec![];
    for k in 0..16 {
        let chunk = vec![k as u8 + 1; 4090];
        all.extend(&chunk);
        inters.push(chunk);
    }
    // total so far 10 + 65440 = 65450; announce (received - 65536) as total length
    let last: Vec<u8> = rng.bytes(65536 + 30 - all.len());
    all.extend(&last);
    let tl = (all.len() - 65536 + 2 + label.len()) as u16; // 35
    let crc = crc32_mpeg(&[&tl.to_be_bytes(), &ptype.to_be_bytes(), &label, &all]);
    let first = P { kind: 2, lt: 1, fragid: 7, tl, ptype, label: label.to_vec(), chain: vec![], payload: first_payload, crc: 0, gse_len: None };
    feed(out, &mut rx, &first.ser(), vec![]);
    for c in inters {
        let p = P { kind: 0, lt: 3, fragid: 7, tl: 0, ptype: 0, label: vec![], chain: vec![], payload: c, crc: 0, gse_len: None };
        feed(out, &mut rx, &p.ser(), vec![]);
    }
    let end = P { kind: 1, lt: 3, fragid: 7, tl: 0, ptype: 0, label: vec![], chain: vec![], payload: last, crc, gse_len: None };
    feed(out, &mut rx, &end.ser(), vec![]);
    probe(out, &mut rx, rng, 64, 7, size + 5);
    rx.ev_drain(out);
    // the same storage, a train whose intermediate fragments cross 65535 received bytes
    let mut rx = mk_rx(out, "faults", "big_storage_cross", 1, size, 1, std_mgr(), false);
    let first = P { kind: 2, lt: 1, fragid: 9, tl: 65000, ptype, label: label.to_vec(), chain: vec![], payload: vec![5; 20], crc: 0, gse_len: None };
    feed(out, &mut rx, &first.ser(), vec![]);
    for k in 0..17 {
        let p = P { kind: 0, lt: 3, fragid: 9, tl: 0, ptype: 0, label: vec![], chain: vec![], payload: vec![k as u8; 4090], crc: 0, gse_len: None };
        feed(out, &mut rx, &p.ser(), vec![]);
    }
    let end = P { kind: 1, lt: 3, fragid: 9, tl: 0, ptype: 0, label: vec![], chain: vec![], payload: vec![1, 2, 3], crc: 0, gse_len: None };
    feed(out, &mut rx, &end.ser(), vec![]);
    probe(out, &mut rx, rng, 64, 9, size + 6);
    rx.ev_drain(out);
    // a genuine train of 65533 bytes for everybody (total length exactly 0xFFFF) into which one or two foreign
    // bytes were spliced, with a trailer that matches the bytes received: the announced length decides
    for extra in [1usize, 2] {
        let mut rx = mk_rx(out, "faults", "big_storage_ffff", 1, size, 1, std_mgr(), false);
        let pdu: Vec<u8> = (0..65533usize).map(|i| (i * 7 + i / 251) as u8).collect();
        let mut t = train(&pdu, &[], false, ptype, 11, &[4090, 4094, 4094, 4094, 4094, 4094, 4094, 4094, 4094, 4094, 4094, 4094, 4094, 4094, 4094, 4094]);
        let mut received = pdu.clone();
        let last = t.len() - 1;
        for _ in 0..extra {
            // (spliced into the end packet: the intermediate fragments are already as long as a packet can be)
            received.push(0xEE);
            t[last].payload.push(0xEE);
        }
        let tl = 0xFFFFu16;
        t[last].crc = crc32_mpeg(&[&tl.to_be_bytes(), &ptype.to_be_bytes(), &[], &received]);
        for p in &t {
            feed(out, &mut rx, &p.ser(), vec![]);
        }
        probe(out, &mut rx, rng, 64, 11, size + 7);
        rx.ev_drain(out);
    }
    // a genuine train near 64 KiB with a large duplicate in the middle (the 16-bit count of received bytes cannot
    // hold it: refused), framed by a packet that leaves a label and a packet that re-uses it; then the rest of the
    // genuine train
    {
        let mut rx = mk_rx(out, "faults", "big_storage_dup", 2, size, 2, std_mgr(), false);
        let pdu: Vec<u8> = (0..65530usize).map(|i| (i * 13 + i / 97) as u8).collect();
        // 4090 + 15 x 4094 = 65500 bytes before the end packet: one more intermediate fragment overflows 16 bits
        let t = train(&pdu, &[], false, ptype, 12, &[4090, 4094, 4094, 4094, 4094, 4094, 4094, 4094, 4094, 4094, 4094, 4094, 4094, 4094, 4094, 4094]);
        let n = t.len();
        for p in &t[..n - 1] {
            feed(out, &mut rx, &p.ser(), vec![]);
        }
        feed(out, &mut rx, &complete(&[1, 2, 3], &[5, 5, 5, 5, 5, 5], false, ptype).ser(), vec![]);
        feed(out, &mut rx, &t[n - 2].ser(), vec![]); // the duplicate: 65500 + 4094 does not fit 16 bits
        feed(out, &mut rx, &complete(&[4, 5, 6], &[5, 5, 5, 5, 5, 5], true, ptype).ser(), vec![]);
        feed(out, &mut rx, &t[n - 1].ser(), vec![]);
        probe(out, &mut rx, rng, 64, 12, size + 8);
        rx.ev_drain(out);
    }
}

// -------------------------------------------------------------- interleave
struct Made {
    pdu: Pdu,
    pkts: Vec<Vec<u8>>,
}

/// fragment a PDU with the real encapsulator into exactly `nfrag` packets
fn make_frags(out: &mut Out, rng: &mut Rng, enc: &mut Encapsulator<DefaultCrc>, id: u8, label: Label, nfrag: usize) -> Option<Made> {
    let plen = rng.range(nfrag * 3, 40);
    let pdu = Pdu::random(out, plen, rng);
    let per = plen / nfrag;
    let mut pkts = vec![];
    enc.reset_last_label();
    ev_cfg(out, enc, Cfg::Reset);
    let t = ev_encap(out, enc, &pdu, id, label, 0x0800, 7 + label.len() + per, None, None);
    let mut ctx = match t.res {
        Some(Ok(EncapStatus::FragmentedPkt(_, c))) => c,
        _ => return None,
    };
    pkts.push(t.wire);
    for k in 1..nfrag {
        let b = if k + 1 == nfrag { 200 } else { 3 + per };
        let t = ev_encap_frag(out, enc, &pdu, &ctx, b);
        match t.res {
            Some(Ok(EncapStatus::FragmentedPkt(_, c))) => {
                ctx = c;
                pkts.push(t.wire);
            }
            Some(Ok(EncapStatus::CompletedPkt(_))) => {
                pkts.push(t.wire);
                break;
            }
            _ => return None,
        }
    }
    if pkts.len() != nfrag {
        return None;
    }
    Some(Made { pdu, pkts })
}

fn merges(counts: &[usize]) -> Vec<Vec<usize>> {
    // all order-preserving merges: sequences over train indices with the given multiplicities
    fn rec(left: &mut Vec<usize>, cur: &mut Vec<usize>, outv: &mut Vec<Vec<usize>>) {
        if left.iter().all(|x| *x == 0) {
            outv.push(cur.clone());
            return;
        }
        for i in 0..left.len() {
            if left[i] > 0 {
                left[i] -= 1;
                cur.push(i);
                rec(left, cur, outv);
                cur.pop();
                left[i] += 1;
            }
        }
    }
    let mut o = vec![];
    rec(&mut counts.to_vec(), &mut vec![], &mut o);
    o
}

pub fn interleave(out: &mut Out, seed: u64, thorough: bool) {
    let mut rng = Rng::new(seed ^ 0x171E);
    interleave_special(out, &mut rng, thorough);
    let shapes: Vec<(usize, Vec<usize>)> = if thorough {
        vec![(2, vec![2, 2]), (2, vec![3, 3]), (3, vec![2, 2, 2]), (3, vec![3, 2, 2]), (4, vec![2, 2, 2, 2]), (3, vec![3, 3])]
    } else {
        vec![(2, vec![2, 2]), (2, vec![3, 2]), (3, vec![2, 2, 2])]
    };
    for (slots, counts) in shapes {
        let all = merges(&counts);
        let cap = if thorough { 400 } else { 40 };
        let step = (all.len() / cap).max(1);
        for (mi, m) in all.iter().enumerate() {
            if mi % step != 0 {
                continue;
            }
            // ids tracked separately: distinct residues modulo the slot count
            let base = rng.below(200) as u8;
            let ids: Vec<u8> = (0..counts.len()).map(|i| base.wrapping_add(i as u8)).collect();
            if counts.len() > slots {
                continue;
            }
            let mgr = std_mgr();
            out.begin(
                "interleave",
                Obj::new().str("what", "merge").boolean("lock", false).raw("rx", &jrxcfg(slots, PDU_SIZE, &mgr).end()),
            );
            let mut enc = Encapsulator::new(DefaultCrc {});
            let mut made = vec![];
            let mut okm = true;
            for (i, c) in counts.iter().enumerate() {
                let label = if i % 2 == 0 { LA6 } else { LA3 };
                match make_frags(out, &mut rng, &mut enc, ids[i], label, *c) {
                    Some(m) => made.push(m),
                    None => okm = false,
                }
            }
            if !okm {
                continue;
            }
            let mut rx: Rx<DefaultCrc> = Rx::new(slots, PDU_SIZE, DefaultCrc {}, mgr);
            for i in 0..slots + 1 {
                rx.ev_provision(out, PDU_SIZE + i);
            }
            for id in &ids {
                rx.note_id(*id);
            }
            let mut pos = vec![0usize; counts.len()];
            // stray packets: intermediate / end of ids that alias an occupied slot or are unknown, complete packets
            let stray_at = rng.below(m.len() + 1);
            let stray_kind = mi % 9;
            for (k, ti) in m.iter().enumerate() {
                if k == stray_at {
                    let alias = ids[rng.below(ids.len())].wrapping_add(slots as u8);
                    let s: Vec<u8> = match stray_kind {
                        0 => P { kind: 0, lt: 3, fragid: alias, tl: 0, ptype: 0, label: vec![], chain: vec![], payload: vec![1, 2, 3], crc: 0, gse_len: None }.ser(),
                        1 => P { kind: 1, lt: 3, fragid: alias, tl: 0, ptype: 0, label: vec![], chain: vec![], payload: vec![1, 2, 3], crc: 77, gse_len: None }.ser(),
                        2 => complete(&[5, 6, 7], &[3, 3, 3], false, 0x0800).ser(),
                        3 => P { kind: 0, lt: 3, fragid: 250, tl: 0, ptype: 0, label: vec![], chain: vec![], payload: vec![9], crc: 0, gse_len: None }.ser(),
                        // first fragments of an aliasing id that must be rejected without claiming the slot:
                        // total length not larger than the payload, unknown mandatory extension, zero label, unresolvable re-use
                        5 => P { kind: 2, lt: 1, fragid: alias, tl: 3, ptype: 0x0800, label: vec![1, 2, 3], chain: vec![], payload: vec![1, 2, 3, 4, 5], crc: 0, gse_len: None }.ser(),
                        6 => P { kind: 2, lt: 1, fragid: alias, tl: 40, ptype: 0x0099, label: vec![1, 2, 3], chain: vec![0x08, 0x00], payload: vec![1, 2, 3], crc: 0, gse_len: None }.ser(),
                        7 => P { kind: 2, lt: 0, fragid: alias, tl: 40, ptype: 0x0800, label: vec![0; 6], chain: vec![], payload: vec![1, 2, 3], crc: 0, gse_len: None }.ser(),
                        8 => {
                            rx.ev_reset(out);
                            P { kind: 2, lt: 3, fragid: alias, tl: 40, ptype: 0x0800, label: vec![], chain: vec![], payload: vec![1, 2, 3], crc: 0, gse_len: None }.ser()
                        }
                        _ => vec![],
                    };
                    if !s.is_empty() {
                        rx.note_id(alias);
                        feed(out, &mut rx, &s, vec![]);
                    }
                }
                if stray_kind >= 5 {
                    // rejected first fragments of the id aliasing *each* PDU's slot, before every packet
                    for (ii, idv) in ids.iter().enumerate() {
                        let al = idv.wrapping_add(slots as u8);
                        let s = match (stray_kind + ii + k) % 3 {
                            0 => P { kind: 2, lt: 1, fragid: al, tl: 3, ptype: 0x0800, label: vec![1, 2, 3], chain: vec![], payload: vec![1, 2, 3, 4, 5], crc: 0, gse_len: None },
                            1 => P { kind: 2, lt: 1, fragid: al, tl: 40, ptype: 0x0099, label: vec![1, 2, 3], chain: vec![0x08, 0x00], payload: vec![1, 2, 3], crc: 0, gse_len: None },
                            _ => P { kind: 2, lt: 0, fragid: al, tl: 40, ptype: 0x0800, label: vec![0; 6], chain: vec![], payload: vec![1, 2, 3], crc: 0, gse_len: None },
                        };
                        rx.note_id(al);
                        feed(out, &mut rx, &s.ser(), vec![]);
                    }
                }
                let pkt = &made[*ti].pkts[pos[*ti]];
                pos[*ti] += 1;
                let is_end = pos[*ti] == counts[*ti];
                let mut extra = if is_end { vec![("of", made[*ti].pdu.id.to_string())] } else { vec![] };
                extra.push(("ilv", "true".to_string()));
                feed(out, &mut rx, pkt, extra);
            }
            rx.ev_drain(out);
        }
    }
    // restart on an id in flight: only that id restarts
    for rep in 0..(if thorough { 40 } else { 8 }) {
        let mgr = std_mgr();
        out.begin("interleave", Obj::new().str("what", "restart").boolean("lock", false).raw("rx", &jrxcfg(2, PDU_SIZE, &mgr).end()));
        let mut enc = Encapsulator::new(DefaultCrc {});
        let a = make_frags(out, &mut rng, &mut enc, 10, LA6, 3);
        let b = make_frags(out, &mut rng, &mut enc, 11, LA3, 3);
        let c = make_frags(out, &mut rng, &mut enc, 10, LA3, 2);
        let (a, b, c) = match (a, b, c) {
            (Some(a), Some(b), Some(c)) => (a, b, c),
            _ => continue,
        };
        let mut rx: Rx<DefaultCrc> = Rx::new(2, PDU_SIZE, DefaultCrc {}, mgr);
        for i in 0..3 {
            rx.ev_provision(out, PDU_SIZE + i);
        }
        rx.note_id(10);
        rx.note_id(11);
        feed(out, &mut rx, &a.pkts[0], vec![]);
        feed(out, &mut rx, &b.pkts[0], vec![]);
        if rep % 2 == 0 {
            feed(out, &mut rx, &a.pkts[1], vec![]);
        }
        feed(out, &mut rx, &c.pkts[0], vec![]); // restart of id 10
        feed(out, &mut rx, &b.pkts[1], vec![]);
        feed(out, &mut rx, &c.pkts[1], vec![("of", c.pdu.id.to_string())]);
        feed(out, &mut rx, &b.pkts[2], vec![("of", b.pdu.id.to_string())]);
        feed(out, &mut rx, &a.pkts[2], vec![]); // stale end of the abandoned train
        rx.ev_drain(out);
    }
}

/// fragment `pdu` into exactly three packets without touching the sender's label memory
fn frags3(out: &mut Out, enc: &mut Encapsulator<DefaultCrc>, pdu: &Pdu, id: u8, label: Label) -> Option<Vec<Vec<u8>>> {
    let n = pdu.bytes.len();
    let t = ev_encap(out, enc, pdu, id, label, 0x0800, 13 + n / 3, None, None);
    let c1 = match t.res {
        Some(Ok(EncapStatus::FragmentedPkt(_, c))) => c,
        _ => return None,
    };
    let t2 = ev_encap_frag(out, enc, pdu, &c1, 3 + n / 3);
    let c2 = match t2.res {
        Some(Ok(EncapStatus::FragmentedPkt(_, c))) => c,
        _ => return None,
    };
    let t3 = ev_encap_frag(out, enc, pdu, &c2, 200);
    match t3.res {
        Some(Ok(EncapStatus::CompletedPkt(_))) => Some(vec![t.wire, t2.wire, t3.wire]),
        _ => None,
    }
}

fn interleave_special(out: &mut Out, rng: &mut Rng, thorough: bool) {
    // (00) a start packet that is rejected as a whole (unknown mandatory extension) while a train is open on the
    // same fragment id, on an aliasing id, on another id: the train goes on and completes
    for (ki, kind) in [2u8, 3].iter().enumerate() {
        for other in [0u8, 2, 1] {
            for at in 1..=2usize {
                let mgr = std_mgr();
                out.begin("interleave", Obj::new().str("what", "rejected_whole_same_id").boolean("lock", false).raw("rx", &jrxcfg(2, PDU_SIZE, &mgr).end()));
                let mut rx: Rx<DefaultCrc> = Rx::new(2, PDU_SIZE, DefaultCrc {}, mgr);
                for i in 0..3 {
                    rx.ev_provision(out, PDU_SIZE + i);
                }
                let open_id = 4u8;
                let bad_id = open_id + other; // same id, aliasing id (2 slots), other slot
                rx.note_id(open_id);
                rx.note_id(bad_id);
                let pdu = rng.bytes(30);
                let t = train(&pdu, &[1, 2, 3, 4, 5, 6], false, 0x0800, open_id, &[10, 10]);
                // 0x0099: a mandatory extension the manager does not know, then a type field and payload
                let bad = P { kind: *kind, lt: 1, fragid: bad_id, tl: 20, ptype: 0x0099, label: vec![9, 9, 9], chain: vec![0x08, 0x00], payload: vec![1, 2, 3, 4], crc: 0, gse_len: None }.ser();
                for (i, p) in t.iter().enumerate() {
                    if i == at {
                        feed(out, &mut rx, &bad, vec![("ilv", "true".to_string())]);
                    }
                    feed(out, &mut rx, &p.ser(), vec![("ilv", "true".to_string())]);
                }
                let _ = ki;
                rx.ev_drain(out);
            }
        }
    }
    // (0) slot counts around the size of the fragment-id space: with S slots the ids 0 and S (254, 255) share a
    // slot; a stray intermediate / end packet of the aliasing id is refused and leaves the open train alone
    for slots in [254usize, 255, 256, 300] {
        for variant in 0..4usize {
            let (swap, strays) = (variant % 2 == 1, variant < 2);
            let alias: u8 = if slots < 256 { slots as u8 } else { 255 };
            let (open_id, stray_id) = if swap { (alias, 0u8) } else { (0u8, alias) };
            let mgr = std_mgr();
            out.begin("interleave", Obj::new().str("what", "slots_near_256").boolean("lock", false).raw("rx", &jrxcfg(slots, PDU_SIZE, &mgr).end()));
            let mut rx: Rx<DefaultCrc> = Rx::new(slots, PDU_SIZE, DefaultCrc {}, mgr);
            for i in 0..3 {
                rx.ev_provision(out, PDU_SIZE + i);
            }
            rx.note_id(open_id);
            rx.note_id(stray_id);
            let pdu = rng.bytes(30);
            let t = train(&pdu, &[1, 2, 3, 4, 5, 6], false, 0x0800, open_id, &[10, 10]);
            let stray_i = P { kind: 0, lt: 3, fragid: stray_id, tl: 0, ptype: 0, label: vec![], chain: vec![], payload: vec![1, 2, 3], crc: 0, gse_len: None }.ser();
            let stray_e = P { kind: 1, lt: 3, fragid: stray_id, tl: 0, ptype: 0, label: vec![], chain: vec![], payload: vec![1, 2, 3], crc: 7, gse_len: None }.ser();
            feed(out, &mut rx, &t[0].ser(), vec![("ilv", "true".to_string())]);
            if strays {
                feed(out, &mut rx, &stray_i, vec![("ilv", "true".to_string())]);
            }
            feed(out, &mut rx, &t[1].ser(), vec![("ilv", "true".to_string())]);
            if strays {
                feed(out, &mut rx, &stray_e, vec![("ilv", "true".to_string())]);
            }
            // the train's own end fragment under the other id (payload and CRC are right, the id is not): nothing may
            // be delivered at a fragment id that never had a first fragment
            let mut wrong = t[2].clone();
            wrong.fragid = stray_id;
            feed(out, &mut rx, &wrong.ser(), vec![("ilv", "true".to_string())]);
            feed(out, &mut rx, &t[2].ser(), vec![("ilv", "true".to_string())]);
            // when the two ids have slots of their own, a second train runs beside the first
            let pdu2 = rng.bytes(24);
            let t2 = train(&pdu2, &[7, 7, 1], false, 0x86DD, stray_id, &[8, 8]);
            let t3 = train(&rng.bytes(24), &[7, 7, 1], false, 0x86DD, open_id, &[8, 8]);
            for (a, b) in t2.iter().zip(t3.iter()) {
                feed(out, &mut rx, &a.ser(), vec![("ilv", "true".to_string())]);
                if slots >= 256 {
                    feed(out, &mut rx, &b.ser(), vec![("ilv", "true".to_string())]);
                }
            }
            rx.ev_drain(out);
        }
    }
    // (1) a memory with one slot per fragment id: ids 0, 255 and 128 never share a slot
    for rep in 0..(if thorough { 12 } else { 4 }) {
        let mgr = std_mgr();
        out.begin("interleave", Obj::new().str("what", "slots256").boolean("lock", false).raw("rx", &jrxcfg(256, PDU_SIZE, &mgr).end()));
        let mut enc = Encapsulator::new(DefaultCrc {});
        enc.disable_re_use_label();
        ev_cfg(out, &mut enc, Cfg::Disable);
        let ids = [0u8, 255, 128];
        let mut made = vec![];
        for id in ids {
            let pdu = Pdu::random(out, rng.range(9, 40), rng);
            match frags3(out, &mut enc, &pdu, id, LA6) {
                Some(p) => made.push((pdu, p)),
                None => {}
            }
        }
        if made.len() != 3 {
            continue;
        }
        let mut rx: Rx<DefaultCrc> = Rx::new(256, PDU_SIZE, DefaultCrc {}, mgr);
        for i in 0..4 {
            rx.ev_provision(out, PDU_SIZE + i);
        }
        for id in ids {
            rx.note_id(id);
        }
        let all = merges(&[3, 3, 3]);
        let m = &all[(rep * 211 + 17) % all.len()];
        let mut pos = [0usize; 3];
        for ti in m {
            let pkt = &made[*ti].1[pos[*ti]];
            pos[*ti] += 1;
            let mut extra = if pos[*ti] == 3 { vec![("of", made[*ti].0.id.to_string())] } else { vec![] };
            extra.push(("ilv", "true".to_string()));
            feed(out, &mut rx, pkt, extra);
        }
        rx.ev_drain(out);
    }
    // (2) two PDUs with the same label and re-use enabled: the second first fragment carries the re-use
    // marker; stray intermediate / end packets of unknown or aliasing ids at every position must not make
    // the receiver forget the label
    for stray_kind in 0..4usize {
        for stray_pos in 0..6usize {
            let mgr = std_mgr();
            out.begin("interleave", Obj::new().str("what", "reuse_across_trains").boolean("lock", false).raw("rx", &jrxcfg(2, PDU_SIZE, &mgr).end()));
            let mut enc = Encapsulator::new(DefaultCrc {});
            let a = Pdu::random(out, rng.range(24, 40), rng);
            let b = Pdu::random(out, rng.range(24, 40), rng);
            let pa = frags3(out, &mut enc, &a, 20, LA6);
            let pb = frags3(out, &mut enc, &b, 21, LA6);
            let (pa, pb) = match (pa, pb) {
                (Some(x), Some(y)) => (x, y),
                _ => continue,
            };
            let mut rx: Rx<DefaultCrc> = Rx::new(2, PDU_SIZE, DefaultCrc {}, mgr);
            for i in 0..3 {
                rx.ev_provision(out, PDU_SIZE + i);
            }
            rx.note_id(20);
            rx.note_id(21);
            // train A's first fragment comes first, then the two trains alternate
            let order: [(usize, usize); 6] = [(0, 0), (1, 0), (0, 1), (1, 1), (0, 2), (1, 2)];
            for (k, (ti, pi)) in order.iter().enumerate() {
                if k == stray_pos {
                    let sid = [9u8, 22, 23, 250][stray_kind];
                    rx.note_id(sid);
                    let s = P { kind: if stray_kind % 2 == 0 { 1 } else { 0 }, lt: 3, fragid: sid, tl: 0, ptype: 0, label: vec![], chain: vec![], payload: vec![1, 2, 3], crc: 5, gse_len: None };
                    feed(out, &mut rx, &s.ser(), vec![("ilv", "true".to_string())]);
                }
                let pkt = if *ti == 0 { &pa[*pi] } else { &pb[*pi] };
                let mut extra = if *pi == 2 { vec![("of", (if *ti == 0 { a.id } else { b.id }).to_string())] } else { vec![] };
                extra.push(("ilv", "true".to_string()));
                feed(out, &mut rx, pkt, extra);
            }
            rx.ev_drain(out);
        }
    }
}

// ------------------------------------------------------------------ frames
pub fn frames(out: &mut Out, seed: u64, thorough: bool) {
    let mut rng = Rng::new(seed ^ 0xF4A3);
    let nframes = if thorough { 400 } else { 60 };
    for fi in 0..nframes {
        let mgr = std_mgr();
        out.begin("frames", Obj::new().str("what", "walk").boolean("lock", false).raw("rx", &jrxcfg(2, PDU_SIZE, &mgr).end()));
        let mut enc = Encapsulator::new(DefaultCrc {});
        // walker and twin receive identical histories
        let mut walker: Rx<DefaultCrc> = Rx::new(2, PDU_SIZE, DefaultCrc {}, mgr.clone());
        let mut twin: Rx<DefaultCrc> = Rx::new(2, PDU_SIZE, DefaultCrc {}, mgr.clone());
        let mut sink = Out::sink();
        let nbuf = if fi % 4 == 3 { 1 } else { 2 };
        for i in 0..nbuf {
            walker.ev_provision(out, PDU_SIZE + i);
            twin.ev_provision(&mut sink, PDU_SIZE + i);
        }
        if fi % 3 == 0 {
            let c = Cfg::EnableMax(1 + (fi % 2) as u8);
            ev_cfg(out, &mut enc, c);
        }
        // several frames per session so that fragments continue across frames
        let mut open: Option<(Pdu, dvb_gse_rust::gse_encap::ContextFrag)> = None;
        for _frame in 0..rng.range(1, 3) {
            let mut pkts: Vec<Vec<u8>> = vec![];
            enc.reset_last_label();
            ev_cfg(out, &mut enc, Cfg::Reset);
            let npk = rng.range(1, 5);
            for _ in 0..npk {
                if let Some((pdu, ctx)) = open.clone() {
                    let t = ev_encap_frag(out, &enc, &pdu, &ctx, rng.range(4, 40));
                    match t.res {
                        Some(Ok(EncapStatus::FragmentedPkt(_, c))) => {
                            open = Some((pdu, c));
                            pkts.push(t.wire);
                        }
                        Some(Ok(EncapStatus::CompletedPkt(_))) => {
                            open = None;
                            pkts.push(t.wire);
                        }
                        _ => {}
                    }
                } else {
                    let plen = rng.range(0, 50);
                    let pdu = Pdu::random(out, plen, &mut rng);
                    let label = *rng.pick(&[LA6, LA3, Label::Broadcast, LA6]);
                    let t = ev_encap(out, &mut enc, &pdu, (fi % 7) as u8, label, 0x0800, rng.range(10, 70), None, None);
                    match t.res {
                        Some(Ok(EncapStatus::FragmentedPkt(_, c))) => {
                            open = Some((pdu, c));
                            pkts.push(t.wire);
                        }
                        Some(Ok(EncapStatus::CompletedPkt(_))) => pkts.push(t.wire),
                        _ => {}
                    }
                }
                // occasionally a packet the receiver must reject, consuming its own length
                // (the first 16 sessions put one after every packet, each kind in turn)
                if rng.chance(1, 5) || fi < 16 {
                    let bad: Vec<u8> = match if fi < 16 { fi % 8 } else { rng.below(8) } {
                        6 | 7 => {
                            // a train whose last packet no longer fits the storage: first fragment of 10 bytes, then an
                            // end (6) or intermediate (7) fragment carrying 60 more - larger than what is left
                            let big: Vec<u8> = (0..70u8).collect();
                            let tr = if fi % 8 == 6 || (fi >= 16 && rng.chance(1, 2)) {
                                train(&big, &[6, 6, 6], false, 0x0800, 96, &[10])
                            } else {
                                train(&big, &[6, 6, 6], false, 0x0800, 96, &[10, 60])
                            };
                            let mut v = tr[0].ser();
                            v.extend(tr[1].ser());
                            v
                        }
                        4 | 5 => {
                            // a valid first fragment of another PDU: with every buffer attached to a reassembly it is
                            // rejected for lack of storage and must consume exactly its own length
                            train(&[9, 8, 7, 6, 5, 4, 3, 2], &[5, 5, 5], false, 0x0800, 97, &[4])[0].ser()
                        }
                        0 => P { kind: 0, lt: 3, fragid: 99, tl: 0, ptype: 0, label: vec![], chain: vec![], payload: vec![1, 2], crc: 0, gse_len: None }.ser(),
                        1 => {
                            let mut p = complete(&[1, 2, 3], &[4, 4, 4], false, 0x0099);
                            p.chain = vec![0x08, 0x00];
                            p.ser() // unknown mandatory extension
                        }
                        2 => complete(&[7; 70], &[4, 4, 4], false, 0x0800).ser(), // larger than storage
                        _ => {
                            let tr = train(&[1, 2, 3, 4, 5, 6], &[], false, 0x0800, 98, &[3]);
                            let mut e = tr[1].clone();
                            e.crc ^= 0x10;
                            let mut v = tr[0].ser();
                            v.extend(e.ser());
                            v // first + end with bad CRC (two packets)
                        }
                    };
                    pkts.push(bad);
                }
            }
            // lay out the frame: packets back to back, then padding / garbage
            let mut frame: Vec<u8> = vec![];
            let mut bounds = vec![];
            for p in &pkts {
                bounds.push(frame.len());
                frame.extend(p);
            }
            let tailkind = rng.below(5);
            let padn = match tailkind {
                0 => 0,
                1 => 1,
                2 => 2,
                // (every eighth session: more padding than the largest packet is long)
                _ if fi % 8 == 5 => *rng.pick(&[4096usize, 4098, 5000, 9000]),
                _ => rng.range(3, 30),
            };
            frame.extend(vec![0u8; padn]);
            walker.ev_reset(out);
            twin.ev_reset(&mut sink);
            // walk
            let mut off = 0usize;
            let mut guard = 0;
            while off < frame.len() && guard < 64 {
                guard += 1;
                let rest = &frame[off..];
                // twin: the packet alone, when the walker stands on a packet boundary
                let alone: Option<String> = if let Some(bi) = bounds.iter().position(|b| *b == off) {
                    let pl = if bi + 1 < bounds.len() { bounds[bi + 1] - off } else { frame.len() - padn - off };
                    // a "bad" entry may hold two packets: present only the first, delimited by its own GSE length
                    let own = if rest.len() >= 2 { (((rest[0] as usize & 0x0F) << 8) | rest[1] as usize) + 2 } else { pl };
                    let one = &rest[..own.min(pl).min(rest.len())];
                    let o = twin.ev_decap(&mut sink, one, vec![]);
                    let s = summarize(&o);
                    if let Some(b) = o.returned {
                        twin.ev_provision_buf(&mut sink, b);
                    }
                    Some(s)
                } else if bounds.iter().any(|b| *b < off) && off < frame.len() - padn {
                    // inside a two-packet entry: second packet alone
                    let own = if rest.len() >= 2 { (((rest[0] as usize & 0x0F) << 8) | rest[1] as usize) + 2 } else { rest.len() };
                    let one = &rest[..own.min(rest.len())];
                    let o = twin.ev_decap(&mut sink, one, vec![]);
                    let s = summarize(&o);
                    if let Some(b) = o.returned {
                        twin.ev_provision_buf(&mut sink, b);
                    }
                    Some(s)
                } else {
                    None
                };
                let extra = match &alone {
                    Some(s) => vec![("alone", s.clone())],
                    None => vec![("padding_zone", "true".to_string())],
                };
                walker.ev_peek(out, rest, bounds.contains(&off));
                let o = feed(out, &mut walker, rest, extra);
                match o.consumed {
                    Some(n) if n > 0 => off += n,
                    _ => break,
                }
            }
        }
        walker.ev_drain(out);
        sink.finish();
    }
}

fn summarize(o: &RxOut) -> String {
    o.jres.clone()
}

// ------------------------------------------------------------------ rxscn
/// S->I: replay behaviours of MC_Rx (sampled by TLC in simulation mode).  Tokens:
///   provision:0 | complete:0 | garbage:0 | first:<id>:<pdu> | inter:<id>:<pdu>:<k> | end:<id>:<pdu>:<k>:<crc>
/// PDU p is 12 bytes sent as three 4-byte chunks (k = 1 first, 2 intermediate, 3 end); `crc` names the PDU
/// whose train the trailer was computed over (0 = junk).  As in the model the caller initially holds
/// every buffer and nothing is provisioned.
pub fn rxscn(out: &mut Out, path: &str) {
    let text = std::fs::read_to_string(path).unwrap_or_default();
    let label = [1u8, 2, 3];
    let ptype = 0x0800u16;
    let pdu_of = |p: usize| -> Vec<u8> { (0..12).map(|i| (p * 16 + i) as u8).collect() };
    for line in text.lines() {
        let mut it = line.split_whitespace();
        let slots: usize = it.next().and_then(|s| s.parse().ok()).unwrap_or(2);
        set_slots(slots);
        let mut rx = mk_rx(out, "rxscn", "tlc", slots, 16, 0, std_mgr(), false);
        let mut held: Vec<Box<[u8]>> = vec![vec![0xEE; 16].into_boxed_slice(), vec![0xEE; 17].into_boxed_slice()];
        for id in 0..3u8 {
            rx.note_id(id);
        }
        for tok in it {
            let mut f: Vec<&str> = tok.split(':').collect();
            // optional last field F<fault>: a memory failure injected into this call (MC_Rx with Faults)
            let fault: Option<&str> = match f.last() {
                Some(x) if x.starts_with('F') => Some(&x[1..]),
                _ => None,
            };
            if fault.is_some() {
                f.pop();
            }
            let num = |i: usize| -> usize { f.get(i).and_then(|s| s.parse().ok()).unwrap_or(0) };
            let bytes: Option<Vec<u8>> = match f[0] {
                "provision" => {
                    if let Some(b) = held.pop() {
                        if let Some(back) = rx.ev_provision_buf(out, b) {
                            held.push(back);
                        }
                    }
                    None
                }
                "complete" => Some(complete(&[7, 7, 7], &label, false, ptype).ser()),
                // rejected after its buffer was taken: the PDU is larger than any provisioned buffer
                "badcomplete" => Some(complete(&[7; 20], &label, false, ptype).ser()),
                "garbage" => Some(vec![0, 0, 0]),
                "first" => Some(train(&pdu_of(num(2)), &label, false, ptype, num(1) as u8, &[4, 4])[0].ser()),
                "inter" => {
                    let p = pdu_of(num(2));
                    let k = num(3).clamp(1, 3);
                    Some(P { kind: 0, lt: 3, fragid: num(1) as u8, tl: 0, ptype: 0, label: vec![], chain: vec![], payload: p[(k - 1) * 4..k * 4].to_vec(), crc: 0, gse_len: None }.ser())
                }
                "end" => {
                    let p = pdu_of(num(2));
                    let k = num(3).clamp(1, 3);
                    let c = num(4);
                    let crc = if c == 0 {
                        0xDEAD_BEEF
                    } else {
                        let tl = (12 + 2 + label.len()) as u16;
                        crc32_mpeg(&[&tl.to_be_bytes(), &ptype.to_be_bytes(), &label, &pdu_of(c)])
                    };
                    Some(P { kind: 1, lt: 3, fragid: num(1) as u8, tl: 0, ptype: 0, label: vec![], chain: vec![], payload: p[(k - 1) * 4..k * 4].to_vec(), crc, gse_len: None }.ser())
                }
                _ => None,
            };
            if let Some(b) = bytes {
                let arm: Option<(&'static str, u8)> = match (fault, f[0]) {
                    (Some("new"), "first") => Some(("new_frag", 0)),
                    (Some("new"), _) => Some(("new_pdu", 0)),
                    (Some("take"), _) => Some(("take_frag", 0)),
                    (Some("save"), _) => Some(("save_frag", 0)),
                    (Some("prov"), _) => Some(("provision", 0)),
                    (Some("provc"), _) => Some(("provision", 1)),
                    _ => None,
                };
                let o = match arm {
                    Some((op, v)) => rx.ev_decap_armed(out, &b, op, v),
                    None => rx.ev_decap(out, &b, vec![]),
                };
                if let Some(buf) = o.returned {
                    held.push(buf); // stays with the caller until the model provisions it
                }
            }
        }
        rx.ev_drain(out);
    }
}

// ------------------------------------------------------------------ memfaults
/// trait methods a packet of this kind can reach
fn may_call(pkt: &[u8], op: &str) -> bool {
    if pkt.len() < 2 {
        return false;
    }
    match pkt[0] >> 6 {
        3 => matches!(op, "new_pdu" | "provision"),
        2 => matches!(op, "new_frag" | "save_frag" | "provision"),
        0 => matches!(op, "take_frag" | "save_frag" | "provision"),
        _ => matches!(op, "take_frag" | "provision"),
    }
}

const MEM_OPS: [&str; 5] = ["new_pdu", "new_frag", "take_frag", "save_frag", "provision"];

fn run_memfault(out: &mut Out, rng: &mut Rng, what: &str, nbuf: usize, seq: &[Vec<u8>], arms: &[(usize, &'static str, u8)]) {
    set_slots(2 + out.scn % 2);
    let mut rx = mk_rx(out, "memfaults", what, slots(), PDU_SIZE, nbuf, std_mgr(), false);
    for (i, p) in seq.iter().enumerate() {
        match arms.iter().find(|a| a.0 == i) {
            Some((_, op, v)) => {
                let mut o = rx.ev_decap_armed(out, p, op, *v);
                if let Some(b) = o.returned.take() {
                    rx.ev_provision_buf(out, b);
                }
            }
            None => {
                feed(out, &mut rx, p, vec![]);
            }
        }
    }
    probe(out, &mut rx, rng, PDU_SIZE, 4, PDU_SIZE + 30);
    rx.ev_drain(out);
}

/// sequences that reach every memory call site of decap, error exits (give-back) included
fn memfault_base(rng: &mut Rng, k: usize) -> Vec<Vec<u8>> {
    let ser = |t: &[P]| -> Vec<Vec<u8>> { t.iter().map(|p| p.ser()).collect() };
    let l6 = [1u8, 2, 3, 4, 5, 6];
    let mut v: Vec<Vec<u8>> = vec![];
    match k % 6 {
        0 => {
            // complete, then a valid train
            v.push(complete(&rng.bytes(9), &l6, false, 0x0800).ser());
            let n = rng.range(9, 40);
            v.extend(ser(&valid_train(rng, n, 4, false).1));
        }
        1 => {
            // two trains interleaved on ids that do not share a slot (4, 5) and a restart of id 4
            let a = ser(&train(&rng.bytes(20), &l6, false, 0x0800, 4, &[5, 5, 5]));
            let b = ser(&train(&rng.bytes(18), &[7, 7, 1], false, 0x86DD, 5, &[6, 6]));
            v.push(a[0].clone());
            v.push(b[0].clone());
            v.push(a[1].clone());
            v.push(b[1].clone());
            v.push(a[0].clone()); // restart: new_frag on an occupied slot
            v.push(a[1].clone());
            v.push(b[2].clone());
            v.push(a[2].clone());
            v.push(a[3].clone());
        }
        2 => {
            // error exits after a buffer was taken: unresolvable re-use complete, fragment that no longer fits,
            // bad CRC, wrong total length
            v.push(complete(&rng.bytes(5), &l6, true, 0x0800).ser());
            let t = train(&rng.bytes(40), &l6, false, 0x0800, 4, &[30]);
            v.push(t[0].ser());
            v.push(P { kind: 0, lt: 3, fragid: 4, tl: 0, ptype: 0, label: vec![], chain: vec![], payload: rng.bytes(50), crc: 0, gse_len: None }.ser());
            let mut t2 = train(&rng.bytes(24), &[], false, 0x0800, 5, &[8, 8]);
            t2[2].crc ^= 0x0100;
            v.extend(ser(&t2));
            let mut t3 = train(&rng.bytes(24), &l6, false, 0x0800, 6, &[8, 8]);
            t3[0].tl += 3;
            v.extend(ser(&t3));
        }
        3 => {
            // first fragments on aliasing ids (slot claimed), strays, a first fragment larger than the storage
            let s = slots() as u8;
            let a = ser(&train(&rng.bytes(20), &l6, false, 0x0800, 4, &[5, 5]));
            let b = ser(&train(&rng.bytes(20), &l6, false, 0x0800, 4 + s, &[5, 5]));
            v.push(a[0].clone());
            v.push(b[0].clone());
            v.push(a[1].clone());
            v.push(b[1].clone());
            v.push(b[2].clone());
            v.push(train(&rng.bytes(90), &l6, false, 0x0800, 6, &[80])[0].ser());
            v.push(a[2].clone());
        }
        4 => {
            // zero label, unknown mandatory extension, broadcast + re-use, then a train with re-use first fragment
            v.push(complete(&rng.bytes(5), &[0, 0, 0, 0, 0, 0], false, 0x0800).ser());
            v.push(complete(&rng.bytes(5), &l6, false, 0x0099).ser());
            v.push(complete(&rng.bytes(5), &l6, false, 0x0800).ser());
            v.extend(ser(&train(&rng.bytes(21), &l6, true, 0x0800, 4, &[7, 7])));
            v.push(complete(&rng.bytes(5), &[], false, 0x0800).ser());
            v.push(complete(&rng.bytes(5), &l6, true, 0x0800).ser());
        }
        _ => {
            // CRC-only end packet, PDU that fills the storage exactly
            v.extend(ser(&valid_train_crc_only_end(rng, 12, 4).1));
            v.extend(ser(&train(&rng.bytes(PDU_SIZE), &l6, false, 0x0800, 5, &[PDU_SIZE / 2, PDU_SIZE / 2])));
        }
    }
    v
}

/// `memfaults` (C08): every memory call site of decap fails once, in both ways the trait allows, at every
/// position of sequences that reach it; then random sessions with random failures.  After each history a
/// fresh transfer must go through (probe) and every buffer is accounted for (drain).
pub fn memfaults(out: &mut Out, seed: u64, thorough: bool) {
    let mut rng = Rng::new(seed ^ 0x3E3F_A017);
    let nbase = if thorough { 36 } else { 6 };
    for bi in 0..nbase {
        set_slots(2 + bi % 2);
        let seq = memfault_base(&mut rng, bi);
        let nbuf = 1 + (bi / 6) % 3;
        run_memfault(out, &mut rng, "none", nbuf, &seq, &[]);
        for pos in 0..seq.len() {
            for op in MEM_OPS {
                if !may_call(&seq[pos], op) {
                    continue;
                }
                for variant in 0..3u8 {
                    if (op == "save_frag" && variant >= 1) || (op != "provision" && variant == 2) {
                        continue; // save_frag fails one way only; the third way is a refusal of provision_storage
                    }
                    run_memfault(out, &mut rng, "one_fault", nbuf, &seq, &[(pos, op, variant)]);
                }
            }
        }
    }
    // random sessions
    let nsess = if thorough { 400 } else { 60 };
    for _ in 0..nsess {
        let n = rng.range(15, 50);
        let mut seq: Vec<Vec<u8>> = vec![];
        let mut arms: Vec<(usize, &'static str, u8)> = vec![];
        while seq.len() < n {
            if rng.chance(1, 3) {
                let k = rng.range(6, 40);
                let id = *rng.pick(&[4u8, 5, 6]);
                for p in valid_train(&mut rng, k, id, false).1 {
                    seq.push(p.ser());
                }
            } else {
                let p = random_packet(&mut rng);
                if p.len() < 200 {
                    seq.push(p);
                }
            }
        }
        for i in 0..seq.len() {
            if rng.chance(1, 3) {
                let ops: Vec<&'static str> = MEM_OPS.iter().copied().filter(|o| may_call(&seq[i], o)).collect();
                if !ops.is_empty() {
                    let op = *rng.pick(&ops);
                    arms.push((i, op, rng.below(if op == "provision" { 3 } else { 2 }) as u8));
                }
            }
        }
        let nbuf = rng.range(1, 3);
        run_memfault(out, &mut rng, "random", nbuf, &seq, &arms);
    }
}
