//! `chains`: drive a PDU to completion through a schedule of buffer sizes and
//! feed every produced packet, in order, to a receiver (lock-step).
//! Serves C01 C02 C04 C06 C11 C12 (and C08/C10 per-event clauses on the way).
use crate::drv_lattice::{LA3, LA6, LB3, LB6};
use crate::rx::*;
use crate::tx::*;
use crate::util::*;
use dvb_gse_rust::crc::DefaultCrc;
use dvb_gse_rust::gse_encap::{EncapStatus, Encapsulator};
use dvb_gse_rust::label::Label;

pub struct ChainCfg {
    pub plen: usize,
    pub label: Label,
    pub subst_first: bool, // precede with a complete packet of the same label so the first fragment is a re-use
    pub ptype: u16,
    pub fragid: u8,
    pub sched: Vec<usize>,
    pub slots: usize,
    pub extra_storage: usize,
    /// frame boundary (label memories of both sides reset) after this many packets, if any
    pub reset_after: Option<usize>,
}

pub fn pick_label(rng: &mut Rng) -> Label {
    match rng.below(6) {
        0 => LA6,
        1 => LB6,
        2 => LA3,
        3 => LB3,
        4 => Label::Broadcast,
        _ => Label::SixBytesLabel([rng.byte() | 1, rng.byte(), rng.byte(), rng.byte(), rng.byte(), rng.byte()]),
    }
}

pub fn random_sched(rng: &mut Rng, plen: usize, n: usize) -> Vec<usize> {
    let mut v = vec![];
    for _ in 0..n {
        let b = match rng.below(9) {
            0 => rng.range(0, 12),
            1 | 2 => rng.range(13, 40),
            3 | 4 => rng.range(41, 1500),
            5 => rng.range(4000, 4100),
            6 => rng.range(4098, 70000),
            7 => {
                // room for (some of) the payload but not the CRC
                let rem = rng.range(0, plen.min(4000));
                rem + rng.range(3, 6)
            }
            _ => *rng.pick(&[7usize, 13, 14, 4096, 4097, 4098]),
        };
        v.push(b);
    }
    v
}

/// Run one chain.  Returns the number of packets produced.
pub fn run_chain(out: &mut Out, rng: &mut Rng, c: &ChainCfg, what: &str) -> usize {
    run_chain_with(out, rng, c, what, None)
}

/// `content`: the PDU bytes (length c.plen) instead of random ones
/// receiver storage this many bytes shorter than the PDU (0 = at least as long), for the families that ask for it
static SHORT_STORAGE: std::sync::atomic::AtomicUsize = std::sync::atomic::AtomicUsize::new(0);

pub fn run_chain_with(out: &mut Out, rng: &mut Rng, c: &ChainCfg, what: &str, content: Option<Vec<u8>>) -> usize {
    let pdu = match content {
        Some(b) => Pdu::new(out, b),
        None => Pdu::random(out, c.plen, rng),
    };
    let short = SHORT_STORAGE.load(std::sync::atomic::Ordering::Relaxed);
    let small = Pdu::random(out, 5, rng);
    let mgr = TableMgr { known: vec![] };
    let storage = if short > 0 { c.plen.saturating_sub(short).max(1) } else { c.plen.max(5).max(1) + c.extra_storage };
    let active = out.begin(
        "chains",
        Obj::new().str("what", what).boolean("lock", true).raw("rx", &jrxcfg(c.slots, storage, &mgr).end()),
    );
    let _ = active;
    let mut enc = Encapsulator::new(DefaultCrc {});
    let mut rx: Rx<DefaultCrc> = Rx::new(c.slots, storage, DefaultCrc {}, mgr);
    rx.note_id(c.fragid);
    // unique buffer lengths identify buffers
    rx.ev_provision(out, storage);
    rx.ev_provision(out, storage + 1);

    let long_peek = what == "all_ids" && c.fragid % 64 == 3;
    let feed = |out: &mut Out, rx: &mut Rx<DefaultCrc>, wire: &[u8]| {
        rx.ev_peek(out, wire, true);
        if long_peek {
            // "presented alone or followed by further bytes": the slice is about 64 KiB long
            for total in [65535usize, 65536, 65537, 65539, 65545, 131072] {
                let mut v = wire.to_vec();
                v.resize(total.max(wire.len()), 0xA5);
                rx.ev_peek(out, &v, true);
            }
        }
        let o = rx.ev_decap(out, wire, vec![]);
        if let Some(b) = o.returned {
            rx.ev_provision_buf(out, b);
        }
    };
    // a frame boundary: both label memories are reset together (fragments carry no label: the train goes on)
    let boundary = |out: &mut Out, enc: &mut Encapsulator<DefaultCrc>, rx: &mut Rx<DefaultCrc>, npkts: usize| {
        if c.reset_after == Some(npkts) {
            ev_cfg(out, enc, Cfg::Reset);
            rx.ev_reset(out);
        }
    };

    if c.subst_first {
        let t = ev_encap(out, &mut enc, &small, c.fragid.wrapping_add(1), c.label, c.ptype, 64, None, None);
        if reported_len(&t.res).is_some() {
            feed(out, &mut rx, &t.wire);
        }
    }
    let mut npkts = 0;
    let mut sched = c.sched.clone().into_iter();
    let mut ctx = None;
    let mut guard = 0;
    // first call: skip buffers rejected as too small
    loop {
        guard += 1;
        let b = sched.next().unwrap_or(4097);
        let t = ev_encap(out, &mut enc, &pdu, c.fragid, c.label, c.ptype, b, None, None);
        match &t.res {
            Some(Ok(EncapStatus::CompletedPkt(_))) => {
                npkts += 1;
                feed(out, &mut rx, &t.wire);
                break;
            }
            Some(Ok(EncapStatus::FragmentedPkt(_, cx))) => {
                npkts += 1;
                ctx = Some(*cx);
                feed(out, &mut rx, &t.wire);
                boundary(out, &mut enc, &mut rx, npkts);
                break;
            }
            _ => {
                if guard > 40 {
                    break;
                }
            }
        }
    }
    while let Some(cx) = ctx {
        guard += 1;
        if guard > 400 {
            break;
        }
        let b = sched.next().unwrap_or(4097);
        let t = ev_encap_frag(out, &enc, &pdu, &cx, b);
        match &t.res {
            Some(Ok(EncapStatus::CompletedPkt(_))) => {
                npkts += 1;
                feed(out, &mut rx, &t.wire);
                ctx = None;
            }
            Some(Ok(EncapStatus::FragmentedPkt(_, c2))) => {
                npkts += 1;
                feed(out, &mut rx, &t.wire);
                ctx = Some(*c2);
                boundary(out, &mut enc, &mut rx, npkts);
            }
            _ => {}
        }
    }
    rx.ev_drain(out);
    npkts
}

pub fn run(out: &mut Out, seed: u64, thorough: bool) {
    let mut rng = Rng::new(seed ^ 0xC4A1);
    // boundary PDU lengths x label kinds, a few schedules each
    let mut plens: Vec<usize> = vec![0, 1, 2, 26, 100, 1000];
    for ll in [0usize, 3, 6] {
        for d in -1i64..=1 {
            plens.push((4093 - ll as i64 + d) as usize);
        }
    }
    plens.extend([4096, 4097, 5000, 9000]);
    let big: Vec<usize> = if thorough {
        vec![65527, 65528, 65529, 65530, 65531, 65532, 65533, 40000, 65000]
    } else {
        vec![65527, 65530, 65533]
    };
    let labels = [LA6, LA3, Label::Broadcast];
    let reps = if thorough { 6 } else { 2 };
    for plen in &plens {
        for (li, label) in labels.iter().enumerate() {
            for rep in 0..reps {
                let subst = rep % 2 == 1 && *label != Label::Broadcast;
                let n = rng.range(1, 12);
                let cfg = ChainCfg {
                    plen: *plen,
                    label: *label,
                    subst_first: subst,
                    ptype: *rng.pick(&[0x0600u16, 0x0800, 0x86DD, 0xFFFF]),
                    fragid: ((plen * 7 + li * 13 + rep * 29) % 256) as u8,
                    sched: random_sched(&mut rng, *plen, n),
                    slots: 1 + rep % 3,
                    extra_storage: if rep % 3 == 0 { 0 } else { rng.range(1, 50) },
                    reset_after: if rep % 2 == 0 { Some(1 + rep / 2) } else { None },
                };
                run_chain(out, &mut rng, &cfg, "boundary");
            }
        }
    }
    // three-packet trains whose first fragment is a re-use and whose end packet carries fewer bytes
    // than the label is long (the total length of such a train counts no label bytes)
    for (li, label) in [LA6, LA3, LB6].iter().enumerate() {
        for tail in 0..8usize {
            for subst in [true, false] {
                let plen = 40 + tail + li;
                let first_payload = 10;
                let wll = if subst { 0 } else { label.len() };
                let cfg = ChainCfg {
                    plen,
                    label: *label,
                    subst_first: subst,
                    ptype: 0x0800,
                    fragid: (60 + tail) as u8,
                    // first fragment carries 10 bytes, the intermediate leaves `tail` bytes
                    sched: vec![7 + wll + first_payload, 3 + (plen - first_payload - tail), 4097],
                    slots: 2,
                    extra_storage: tail % 2,
                    reset_after: if tail % 4 == 3 { Some(1 + tail % 2) } else { None },
                };
                run_chain(out, &mut rng, &cfg, "short_tail");
            }
        }
    }
    // two-packet trains whose first fragment is as full as it can be: the buffer misses the complete packet
    // by k bytes, so the end packet carries 3 + k PDU bytes - fewer than a label is long for small k
    // (with a re-use first fragment the announced total length counts no label bytes)
    for (li, label) in [LA6, LA3, LB6, Label::Broadcast].iter().enumerate() {
        for k in 1..=8usize {
            for subst in [true, false] {
                if subst && *label == Label::Broadcast {
                    continue;
                }
                let plen = 30 + k + li;
                let wll = if subst { 0 } else { label.len() };
                let cfg = ChainCfg {
                    plen,
                    label: *label,
                    subst_first: subst,
                    ptype: 0x0800,
                    fragid: (90 + k) as u8,
                    sched: vec![4 + wll + plen - k, 4097],
                    slots: 2,
                    extra_storage: k % 2,
                    reset_after: None,
                };
                run_chain(out, &mut rng, &cfg, "full_first");
            }
        }
    }
    // content: label bytes and PDU bytes that look like something else - all zeros, all ones, a GSE header, a
    // whole GSE packet, a padding run, the label itself - sent complete and in three fragments, with the label
    // written in full and replaced by re-use; protocol types whose bytes look like length or flag fields
    let odd_labels = [
        Label::SixBytesLabel([0xFF; 6]),
        Label::ThreeBytesLabel([0xFF; 3]),
        Label::ThreeBytesLabel([0, 0, 0]),
        Label::SixBytesLabel([0, 0, 0, 0, 0, 1]),
        Label::SixBytesLabel([1, 0, 0, 0, 0, 0]),
        Label::SixBytesLabel([0xC0, 0x1A, 0x08, 0x00, 0x30, 0x00]),
        Label::ThreeBytesLabel([0x30, 0x00, 0x00]),
        Label::Broadcast,
    ];
    let inner_packet = {
        // a complete GSE packet as PDU content
        let mut v = vec![0xC0u8, 0x0A, 0x08, 0x00, 9, 9, 9, 1, 2, 3, 4, 5];
        v.extend([0u8; 12]);
        v
    };
    let contents: Vec<Vec<u8>> = vec![
        vec![0u8; 24],
        vec![0xFFu8; 24],
        inner_packet.clone(),
        [vec![0u8, 0], vec![0x55; 22]].concat(),
        [vec![0xFFu8, 0xFF, 0xFF, 0xFF], vec![0u8; 20]].concat(),
        (0..24u8).map(|i| if i % 2 == 0 { 0x30 } else { 0x01 }).collect(),
    ];
    for (li, label) in odd_labels.iter().enumerate() {
        for (ci, content) in contents.iter().enumerate() {
            for (si, sched) in [vec![4097usize], vec![7 + label.len() + 8, 3 + 8, 4097]].iter().enumerate() {
                let subst = (li + ci + si) % 2 == 1 && *label != Label::Broadcast;
                let sched: Vec<usize> = if subst && si == 1 { vec![7 + 8, 3 + 8, 4097] } else { sched.clone() };
                let cfg = ChainCfg {
                    plen: content.len(),
                    label: *label,
                    subst_first: subst,
                    ptype: [0x0600u16, 0xFFFF, 0xFF00, 0x3000, 0x0800, 0xC00A][(li + ci) % 6],
                    fragid: [0u8, 0xFF, 0x30, 0xC0][(li + ci) % 4],
                    sched,
                    slots: 2,
                    extra_storage: ci % 2,
                    reset_after: None,
                };
                run_chain_with(out, &mut rng, &cfg, "content", Some(content.clone()));
            }
        }
    }
    // every fragment id once (a two-packet train), every class of protocol type value, PDU lengths around the
    // powers of two, and receivers whose storage is 1..3 bytes too short for the PDU (nothing may be delivered,
    // nothing may be lost, nothing may panic)
    for id in 0..=255u8 {
        if !thorough && id % 3 != 0 && id < 250 && id > 5 {
            continue;
        }
        let cfg = ChainCfg { plen: 10, label: labels[id as usize % 3], subst_first: id % 5 == 4 && id % 3 != 2, ptype: 0x0800, fragid: id, sched: vec![17, 4097], slots: 1 + (id as usize % 4), extra_storage: 0, reset_after: None };
        run_chain(out, &mut rng, &cfg, "all_ids");
    }
    let mut pts: Vec<u16> = (0..=0xFFFFu32).step_by(if thorough { 97 } else { 509 }).map(|x| x as u16).collect();
    pts.extend([0x0000u16, 0x00FF, 0x0100, 0x05FF, 0x0600, 0x0601, 0x07FF, 0x0800, 0x7FFF, 0x8000, 0xFF00, 0xFFFE, 0xFFFF]);
    for (i, pt) in pts.iter().enumerate() {
        let cfg = ChainCfg { plen: 6, label: labels[i % 3], subst_first: false, ptype: *pt, fragid: 1, sched: vec![if i % 2 == 0 { 4097 } else { 14 }, 4097], slots: 2, extra_storage: 0, reset_after: None };
        run_chain(out, &mut rng, &cfg, "ptype_sweep");
    }
    for e in 7..=15u32 {
        for d in [-1i64, 0, 1] {
            let plen = ((1i64 << e) + d) as usize;
            let cfg = ChainCfg { plen, label: labels[e as usize % 3], subst_first: e % 2 == 0 && e % 3 != 2, ptype: 0x86DD, fragid: e as u8, sched: vec![4097; 12], slots: 2, extra_storage: 0, reset_after: None };
            run_chain(out, &mut rng, &cfg, "pow2_len");
        }
    }
    for short in 1..=3usize {
        SHORT_STORAGE.store(short, std::sync::atomic::Ordering::Relaxed);
        for (li, label) in labels.iter().enumerate() {
            for (si, sched) in [vec![4097usize], vec![20, 4097], vec![20, 13, 4097]].iter().enumerate() {
                let cfg = ChainCfg { plen: 30 + li, label: *label, subst_first: si == 1 && li != 2, ptype: 0x0800, fragid: (short * 16 + si) as u8, sched: sched.clone(), slots: 2, extra_storage: 0, reset_after: None };
                run_chain(out, &mut rng, &cfg, "short_storage");
            }
        }
    }
    SHORT_STORAGE.store(0, std::sync::atomic::Ordering::Relaxed);
    // the longest PDUs a re-use first fragment can carry (the total length counts no label bytes), cut so that the
    // last intermediate fragment ends 0..6 bytes before the end of the PDU: the receiver's length bookkeeping
    // must use the label as written, not the label it resolved
    let tails: Vec<usize> = if thorough { (0..=6).collect() } else { vec![0, 1, 4, 5] };
    for (label, plens) in [(LA6, if thorough { vec![65533usize, 65532, 65528, 65527] } else { vec![65533, 65528] }), (LA3, if thorough { vec![65533, 65531, 65530] } else { vec![65533] })] {
        for plen in plens {
            for r in &tails {
                let mut sched = vec![4097usize];
                let mut rem = plen - 4090;
                while rem > 4094 {
                    sched.push(4097);
                    rem -= 4094;
                }
                if rem > *r {
                    sched.push(3 + rem - r);
                }
                sched.push(4097);
                let cfg = ChainCfg { plen, label, subst_first: true, ptype: 0x0800, fragid: (100 + r) as u8, sched, slots: 2, extra_storage: r % 2, reset_after: None };
                run_chain(out, &mut rng, &cfg, "max_reuse_tail");
            }
        }
    }
    // long PDUs up to the 16-bit total length, a few with tiny buffers (many packets)
    for (i, plen) in big.iter().enumerate() {
        let label = labels[i % 3];
        let ll = label.len();
        let plen = (*plen).min(65533 - ll);
        let cfg = ChainCfg {
            plen,
            label,
            subst_first: i % 2 == 1 && label != Label::Broadcast,
            ptype: 0x0800,
            fragid: (200 + i) as u8,
            sched: if i % 3 == 0 { vec![4097; 20] } else { random_sched(&mut rng, plen, 30) },
            slots: 2,
            extra_storage: i % 2,
            reset_after: if i % 3 == 1 { Some(2) } else { None },
        };
        run_chain(out, &mut rng, &cfg, "long");
    }
    // random chains
    let nrand = if thorough { 600 } else { 120 };
    for i in 0..nrand {
        let plen = match rng.below(10) {
            0 => rng.range(0, 8),
            1..=5 => rng.range(0, 300),
            6 | 7 => rng.range(300, 4200),
            8 => rng.range(4000, 9000),
            _ => rng.range(0, 20000),
        };
        let label = pick_label(&mut rng);
        let n = rng.range(0, 25);
        let cfg = ChainCfg {
            plen,
            label,
            subst_first: rng.chance(1, 3) && label != Label::Broadcast,
            ptype: (0x0600 + rng.below(0xFA00)) as u16,
            fragid: (i % 256) as u8,
            sched: random_sched(&mut rng, plen, n),
            slots: rng.range(1, 4),
            extra_storage: rng.range(0, 3),
            reset_after: if rng.chance(1, 4) { Some(rng.range(1, 5)) } else { None },
        };
        run_chain(out, &mut rng, &cfg, "random");
    }
    // every fragment id once with a short PDU
    let idstep = if thorough { 1 } else { 5 };
    let mut id = 0usize;
    while id < 256 {
        let cfg = ChainCfg {
            plen: 40,
            label: LA3,
            subst_first: false,
            ptype: 0x0800,
            fragid: id as u8,
            sched: vec![20, 15, 30],
            slots: 1 + id % 4,
            extra_storage: 0,
            reset_after: None,
        };
        run_chain(out, &mut rng, &cfg, "fragid");
        id += idstep;
    }
}

// -------------------------------------------------------------------- custcrc
/// A user-supplied CRC calculator: the standard CRC-32, complemented when `inv` is set.  The crate must use the
/// calculator it was given - on both sides, and the new one after `set_crc_calculator`.
#[derive(Clone, PartialEq, Debug)]
pub struct FlexCrc {
    pub inv: bool,
}
impl dvb_gse_rust::crc::CrcCalculator for FlexCrc {
    fn calculate_crc32(&self, pdu: &[u8], protocol_type: u16, total_length: u16, label: &[u8]) -> u32 {
        let c = DefaultCrc {}.calculate_crc32(pdu, protocol_type, total_length, label);
        if self.inv {
            !c
        } else {
            c
        }
    }
}

fn custcrc_send(
    out: &mut Out,
    rng: &mut Rng,
    enc: &mut Encapsulator<FlexCrc>,
    rx: &mut Rx<FlexCrc>,
    plen: usize,
    label: Label,
    fragid: u8,
) {
    let pdu = Pdu::random(out, plen, rng);
    let feed = |out: &mut Out, rx: &mut Rx<FlexCrc>, wire: &[u8]| {
        let o = rx.ev_decap(out, wire, vec![]);
        if let Some(b) = o.returned {
            rx.ev_provision_buf(out, b);
        }
    };
    let b0 = rng.range(14, 14 + plen / 2);
    let t = ev_encap(out, enc, &pdu, fragid, label, 0x0800, b0, None, None);
    let mut ctx = match &t.res {
        Some(Ok(EncapStatus::CompletedPkt(_))) => {
            feed(out, rx, &t.wire);
            None
        }
        Some(Ok(EncapStatus::FragmentedPkt(_, c))) => {
            feed(out, rx, &t.wire);
            Some(*c)
        }
        _ => None,
    };
    let mut guard = 0;
    while let Some(cx) = ctx {
        guard += 1;
        if guard > 60 {
            break;
        }
        let b = rng.range(8, 8 + plen);
        let t = ev_encap_frag(out, enc, &pdu, &cx, b);
        match &t.res {
            Some(Ok(EncapStatus::CompletedPkt(_))) => {
                feed(out, rx, &t.wire);
                ctx = None;
            }
            Some(Ok(EncapStatus::FragmentedPkt(_, c2))) => {
                feed(out, rx, &t.wire);
                ctx = Some(*c2);
            }
            _ => {}
        }
    }
}

pub fn custcrc(out: &mut Out, seed: u64, thorough: bool) {
    let mut rng = Rng::new(seed ^ 0xC0C0);
    let reps = if thorough { 40 } else { 8 };
    // (sender complemented?, receiver complemented?): equal -> lock-step, everything is delivered;
    // different -> the receiver must refuse every fragmented PDU (complete packets carry no CRC)
    for (txinv, rxinv) in [(true, true), (false, false), (true, false), (false, true)] {
        for rep in 0..reps {
            let mgr = TableMgr { known: vec![] };
            let storage = 300;
            out.begin(
                "custcrc",
                Obj::new()
                    .str("what", if txinv == rxinv { "same_calculator" } else { "different_calculators" })
                    .boolean("lock", txinv == rxinv)
                    .boolean("txinv", txinv)
                    .boolean("rxinv", rxinv)
                    .raw("rx", &jrxcfg(2, storage, &mgr).end()),
            );
            let mut enc = Encapsulator::new(FlexCrc { inv: txinv });
            let mut rx: Rx<FlexCrc> = Rx::new(2, storage, FlexCrc { inv: rxinv }, mgr);
            rx.ev_provision(out, storage);
            rx.ev_provision(out, storage + 1);
            for k in 0..3 {
                let label = pick_label(&mut rng);
                let plen = rng.range(20, 250);
                let id = (rep * 3 + k) as u8;
                rx.note_id(id);
                custcrc_send(out, &mut rng, &mut enc, &mut rx, plen, label, id);
            }
            rx.ev_drain(out);
        }
    }
    // the sender's calculator is replaced between two PDUs: the receiver holds the new one, so the PDU sent
    // before the switch is refused and the one sent after it is delivered
    for rep in 0..reps {
        let mgr = TableMgr { known: vec![] };
        let storage = 300;
        let to = rep % 2 == 0;
        out.begin(
            "custcrc",
            Obj::new().str("what", "set_crc_calculator").boolean("lock", false).boolean("txinv", !to).boolean("rxinv", to).raw("rx", &jrxcfg(2, storage, &mgr).end()),
        );
        let mut enc = Encapsulator::new(FlexCrc { inv: !to });
        let mut rx: Rx<FlexCrc> = Rx::new(2, storage, FlexCrc { inv: to }, mgr);
        rx.ev_provision(out, storage);
        rx.ev_provision(out, storage + 1);
        rx.note_id(1);
        rx.note_id(2);
        let n1 = rng.range(30, 200);
        custcrc_send(out, &mut rng, &mut enc, &mut rx, n1, LA6, 1);
        enc.set_crc_calculator(FlexCrc { inv: to });
        out.emit(&Obj::new().str("ev", "cfg").str("op", "set_crc").num("n", 0).boolean("inv", to).end());
        let n2 = rng.range(30, 200);
        custcrc_send(out, &mut rng, &mut enc, &mut rx, n2, LA3, 2);
        rx.ev_drain(out);
    }
}
