//! Conformance harness for dvb_gse_rust: drives the real crate, records one
//! ndjson event per public call.  The recorded traces are validated by TLC
//! against /verif/spec/Trace*.tla; there is no oracle in this program.
mod craft;
mod drv_chains;
mod drv_ext;
mod drv_labels;
mod drv_lattice;
mod drv_rx;
mod drv_tables;
mod rx;
mod tx;
mod util;

use util::Out;

fn main() {
    std::panic::set_hook(Box::new(|_| {})); // a panic in the code under test is data
    let args: Vec<String> = std::env::args().collect();
    if args.len() < 3 {
        eprintln!("usage: gse_harness <driver> <out.ndjson> [--seed N] [--tier quick|thorough] [--only K] [--scn FILE]");
        std::process::exit(2);
    }
    let driver = args[1].clone();
    let path = args[2].clone();
    let mut seed: u64 = 1;
    let mut thorough = false;
    let mut only: Option<usize> = None;
    let mut scn: Option<String> = None;
    let mut i = 3;
    while i < args.len() {
        match args[i].as_str() {
            "--seed" => {
                seed = args[i + 1].parse().unwrap_or(1);
                i += 1;
            }
            "--tier" => {
                thorough = args[i + 1] == "thorough";
                i += 1;
            }
            "--only" => {
                only = args[i + 1].parse().ok();
                i += 1;
            }
            "--mem" => {
                rx::set_mem_exact(args[i + 1] == "exact");
                i += 1;
            }
            "--scn" => {
                scn = Some(args[i + 1].clone());
                i += 1;
            }
            _ => {}
        }
        i += 1;
    }
    util::start_watchdog(&path);
    let mut out = Out::new(&path, only);
    match driver.as_str() {
        "lattice" => drv_lattice::run(&mut out, seed, thorough),
        "chains" => drv_chains::run(&mut out, seed, thorough),
        "fuzzrx" => drv_rx::fuzzrx(&mut out, seed, thorough),
        "faults" => drv_rx::faults(&mut out, seed, thorough),
        "interleave" => drv_rx::interleave(&mut out, seed, thorough),
        "frames" => drv_rx::frames(&mut out, seed, thorough),
        "rxscn" => drv_rx::rxscn(&mut out, scn.as_deref().unwrap_or("")),
        "labels" => drv_labels::run(&mut out, seed, thorough, scn.as_deref()),
        "ext" => drv_ext::run(&mut out, seed, thorough),
        "hdr" => drv_tables::hdr(&mut out),
        "extnew" => drv_tables::extnew(&mut out),
        "crc" => drv_tables::crc(&mut out, seed, thorough),
        "utils" => drv_tables::utils(&mut out, seed, thorough),
        "memops" => drv_tables::memops(&mut out, seed, thorough, scn.as_deref()),
        "memfaults" => drv_rx::memfaults(&mut out, seed, thorough),
        "custcrc" => drv_chains::custcrc(&mut out, seed, thorough),
        "sysscn" => drv_labels::sysscn(&mut out, scn.as_deref().unwrap_or(""), seed),
        _ => {
            eprintln!("unknown driver {}", driver);
            std::process::exit(2);
        }
    }
    println!("driver={} scenarios={} events={} pdus={}", driver, out.scn, out.events, out.npdus);
    out.finish();
}
