//! Crafting of receiver inputs (valid trains not produced by encap, mutated
//! packets).  Used only to *generate* inputs; nothing here judges anything.
use crate::rx::*;
use crate::util::*;
use dvb_gse_rust::crc::DefaultCrc;

#[derive(Clone, Debug)]
pub struct P {
    pub kind: u8, // 3 complete, 2 first, 0 inter, 1 end  (S,E bits)
    pub lt: u8,   // 0 six, 1 three, 2 bc, 3 ru
    pub fragid: u8,
    pub tl: u16,
    pub ptype: u16, // value of the type field (first ext id when a chain follows)
    pub label: Vec<u8>,
    pub chain: Vec<u8>, // bytes between label and payload
    pub payload: Vec<u8>,
    pub crc: u32,
    pub gse_len: Option<u16>, // override
}

impl P {
    pub fn body(&self) -> Vec<u8> {
        let mut b = vec![];
        match self.kind {
            3 => {
                b.extend(self.ptype.to_be_bytes());
                b.extend(&self.label);
                b.extend(&self.chain);
                b.extend(&self.payload);
            }
            2 => {
                b.push(self.fragid);
                b.extend(self.tl.to_be_bytes());
                b.extend(self.ptype.to_be_bytes());
                b.extend(&self.label);
                b.extend(&self.chain);
                b.extend(&self.payload);
            }
            0 => {
                b.push(self.fragid);
                b.extend(&self.payload);
            }
            _ => {
                b.push(self.fragid);
                b.extend(&self.payload);
                b.extend(self.crc.to_be_bytes());
            }
        }
        b
    }
    pub fn ser(&self) -> Vec<u8> {
        let body = self.body();
        let gl = self.gse_len.unwrap_or((body.len() & 0xFFF) as u16);
        let h: u16 = ((self.kind as u16) << 14) | ((self.lt as u16) << 12) | (gl & 0xFFF);
        let mut v = h.to_be_bytes().to_vec();
        v.extend(body);
        v
    }
}

/// CRC-32/MPEG-2, bitwise (input generation only)
pub fn crc32_mpeg(chunks: &[&[u8]]) -> u32 {
    let mut r: u32 = 0xFFFF_FFFF;
    for c in chunks {
        for b in c.iter() {
            r ^= (*b as u32) << 24;
            for _ in 0..8 {
                r = if r & 0x8000_0000 != 0 { (r << 1) ^ 0x04C1_1DB7 } else { r << 1 };
            }
        }
    }
    r
}

pub fn lt_of(label: &[u8], reuse: bool) -> u8 {
    if reuse {
        3
    } else {
        match label.len() {
            6 => 0,
            3 => 1,
            _ => 2,
        }
    }
}

/// A valid train for `pdu`: first fragment carrying cuts[0] bytes, intermediates
/// for the following cuts, an end fragment with the rest.
pub fn train(pdu: &[u8], label: &[u8], reuse: bool, ptype: u16, fragid: u8, cuts: &[usize]) -> Vec<P> {
    let wl: Vec<u8> = if reuse { vec![] } else { label.to_vec() };
    let tl = (pdu.len() + 2 + wl.len()) as u16;
    let crc = crc32_mpeg(&[&tl.to_be_bytes(), &ptype.to_be_bytes(), &wl, pdu]);
    let lt = lt_of(label, reuse);
    let mut v = vec![];
    let mut off = 0;
    for (i, c) in cuts.iter().enumerate() {
        let n = (*c).min(pdu.len() - off);
        let pl = pdu[off..off + n].to_vec();
        off += n;
        if i == 0 {
            v.push(P { kind: 2, lt, fragid, tl, ptype, label: wl.clone(), chain: vec![], payload: pl, crc: 0, gse_len: None });
        } else {
            v.push(P { kind: 0, lt: 3, fragid, tl: 0, ptype: 0, label: vec![], chain: vec![], payload: pl, crc: 0, gse_len: None });
        }
    }
    v.push(P { kind: 1, lt: 3, fragid, tl: 0, ptype: 0, label: vec![], chain: vec![], payload: pdu[off..].to_vec(), crc, gse_len: None });
    v
}

pub fn complete(pdu: &[u8], label: &[u8], reuse: bool, ptype: u16) -> P {
    let wl: Vec<u8> = if reuse { vec![] } else { label.to_vec() };
    P { kind: 3, lt: lt_of(label, reuse), fragid: 0, tl: 0, ptype, label: wl, chain: vec![], payload: pdu.to_vec(), crc: 0, gse_len: None }
}

/// Start a receiver scenario: begin event + `nbuf` provisions of unique lengths.
#[allow(clippy::too_many_arguments)]
pub fn mk_rx(
    out: &mut Out,
    drv: &str,
    what: &str,
    slots: usize,
    pdu_size: usize,
    nbuf: usize,
    mgr: TableMgr,
    lock: bool,
) -> Rx<DefaultCrc> {
    out.begin(
        drv,
        Obj::new().str("what", what).boolean("lock", lock).raw("rx", &jrxcfg(slots, pdu_size, &mgr).end()),
    );
    let mut rx: Rx<DefaultCrc> = Rx::new(slots, pdu_size, DefaultCrc {}, mgr);
    for i in 0..nbuf {
        rx.ev_provision(out, pdu_size + i);
    }
    rx
}

/// Feed bytes; re-provision any buffer handed back to the caller.
pub fn feed<M: dvb_gse_rust::header_extension::MandatoryHeaderExtensionManager>(
    out: &mut Out,
    rx: &mut Rx<DefaultCrc, M>,
    bytes: &[u8],
    extra: Vec<(&str, String)>,
) -> RxOut {
    let mut o = rx.ev_decap(out, bytes, extra);
    if let Some(b) = o.returned.take() {
        rx.ev_provision_buf(out, b);
    }
    o
}

/// C16 probe: reset the label memory, make one buffer available (or be told the
/// free list is full), then a valid complete packet with an explicit label and
/// a valid fragmented PDU on `id`.  Probe packets are flagged in the trace.
pub fn probe(out: &mut Out, rx: &mut Rx<DefaultCrc>, rng: &mut Rng, pdu_size: usize, id: u8, fresh_len: usize) {
    rx.ev_reset(out);
    rx.ev_provision(out, fresh_len);
    let n = rng.range(1, pdu_size.min(40).max(1));
    let pdu = rng.bytes(n);
    let label: Vec<u8> = if rng.chance(1, 2) { vec![9, 8, 7, 6, 5, 4] } else { vec![7, 7, 1] };
    let c = complete(&pdu, &label, false, 0x0800).ser();
    feed(out, rx, &c, vec![("probe", "true".into())]);
    // "a fresh valid transfer on any fragment id and label kind": the fragmented PDU goes to the same label
    // written in full, to the same label by re-use (valid: the complete packet just before carried it), to
    // another label or to everybody; its first fragment is short, or as full as it can be, or carries the whole
    // PDU (end packet = CRC only)
    let n2 = rng.range(2, pdu_size.min(48).max(2));
    let pdu2 = rng.bytes(n2);
    let (label2, reuse): (Vec<u8>, bool) = match rng.below(6) {
        0 | 1 => (label.clone(), true),
        2 => (vec![], false),
        3 => (vec![0xA1, 0xB2, 0xC3, 0xD4, 0xE5, 0xF6], false),
        _ => (label.clone(), false),
    };
    let cuts: Vec<usize> = match rng.below(4) {
        0 => vec![n2 - rng.range(1, 7).min(n2)],
        1 => vec![n2],
        2 => vec![rng.range(0, n2 / 2), n2],
        _ => vec![rng.range(0, n2 / 2), rng.range(1, n2 / 2 + 1)],
    };
    let mut tt = train(&pdu2, &label2, reuse, 0x86DD, id, &cuts);
    if rng.chance(1, 4) {
        // ... and its first fragment may carry an optional extension (the total length counts no extension bytes)
        tt[0].ptype = 0x0211;
        tt[0].chain = vec![0xE1, 0xE2, 0x86, 0xDD];
    }
    for p in tt {
        if p.kind == 0 && p.payload.is_empty() {
            continue; // an intermediate fragment without payload is not well formed
        }
        feed(out, rx, &p.ser(), vec![("probe", "true".into())]);
    }
}
