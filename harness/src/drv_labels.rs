//! `labels`: long lock-step histories over a small label alphabet with
//! configuration changes, resets, failing calls and fragment traffic (C04 C15
//! C09), plus receiver-only histories with rejected / malformed packets.
use crate::craft::*;
use crate::drv_lattice::{LA3, LA6, LB3, LB6, LZ6};
use crate::drv_rx::random_packet;
use crate::rx::*;
use crate::tx::*;
use crate::util::*;
use dvb_gse_rust::crc::DefaultCrc;
use dvb_gse_rust::gse_encap::{ContextFrag, EncapStatus, Encapsulator};
use dvb_gse_rust::label::Label;

const ALPHA: [Label; 6] = [LA6, LB6, LA3, LB3, Label::Broadcast, Label::ReUse];

struct Pool {
    small: Vec<Pdu>,
    mid: Pdu,
    toolong: Pdu,
    /// too long only because of the label: 65530 + 2 + 6 > 65535, 65531 + 2 + 3 > 65535; fits after a re-use substitution
    almost6: Pdu,
    almost3: Pdu,
}

fn feed_tx(out: &mut Out, rx: &mut Rx<DefaultCrc>, t: &TxOut) {
    if reported_len(&t.res).is_some() {
        feed(out, rx, &t.wire, vec![]);
    }
}

#[allow(clippy::too_many_arguments)]
fn history(out: &mut Out, rng: &mut Rng, pool: &Pool, nops: usize, what: &str, fixed: Option<(Cfg, Label, usize)>) {
    let mgr = TableMgr { known: vec![(0x0042, false, 3), (0x0043, true, 2)] };
    let mut rx = mk_rx(out, "labels", what, 3, 64, 3, mgr, true);
    let mut enc = Encapsulator::new(DefaultCrc {});
    let mut open: Vec<(Pdu, ContextFrag)> = vec![];
    if let Some((cfg, label, n)) = fixed {
        ev_cfg(out, &mut enc, cfg);
        for i in 0..n {
            let t = ev_encap(out, &mut enc, &pool.small[i % pool.small.len()], 1, label, 0x0800, 64, None, None);
            feed_tx(out, &mut rx, &t);
        }
        rx.ev_drain(out);
        return;
    }
    for _ in 0..nops {
        match rng.below(20) {
            0 => {
                // frame boundary: both sides reset together
                ev_cfg(out, &mut enc, Cfg::Reset);
                rx.ev_reset(out);
            }
            1 => ev_cfg(out, &mut enc, Cfg::Disable),
            2 => ev_cfg(out, &mut enc, Cfg::Enable),
            3 if rng.chance(1, 4) => ev_set_crc(out, &mut enc),
            3 => ev_cfg(out, &mut enc, Cfg::EnableMax(*rng.pick(&[0u8, 1, 1, 2, 2, 3, 255]))),
            4 | 5 => {
                // a failing call: too-small buffer, PDU too long, bad protocol type, zero label
                let label = *rng.pick(&ALPHA);
                let small = rng.pick(&pool.small).clone();
                let some_exts = [ExtSpec { id: 0x0211, data: vec![1, 2] }, ExtSpec { id: 0x0100, data: vec![] }];
                match rng.below(8) {
                    5 => ev_encap(out, &mut enc, &small, 2, label, 0x0800, rng.below(12), Some(&some_exts), None),
                    6 => ev_encap(out, &mut enc, &pool.toolong, 2, label, 0x0800, 100, Some(&some_exts), None),
                    7 => ev_encap(out, &mut enc, &small, 2, label, 0x0041, 64, Some(&some_exts), None),
                    0 => ev_encap(out, &mut enc, &small, 2, label, 0x0800, rng.below(4), None, None),
                    1 => ev_encap(out, &mut enc, &pool.toolong, 2, label, 0x0800, 100, None, None),
                    2 => ev_encap(out, &mut enc, &small, 2, label, *rng.pick(&[0x0100u16, 0x05FF, 0x0300]), 64, None, None),
                    3 => ev_encap(out, &mut enc, &small, 2, LZ6, 0x0800, 64, None, None),
                    _ => ev_encap(out, &mut enc, &small, 2, label, 0x0800, 64, Some(&[]), None),
                };
            }
            6 | 7 => {
                // continue an open fragmentation (no label effect on either side)
                if !open.is_empty() {
                    let i = rng.below(open.len());
                    let (pdu, ctx) = open[i].clone();
                    let t = ev_encap_frag(out, &enc, &pdu, &ctx, rng.range(8, 40));
                    match &t.res {
                        Some(Ok(EncapStatus::FragmentedPkt(_, c))) => open[i].1 = *c,
                        Some(Ok(EncapStatus::CompletedPkt(_))) => {
                            open.remove(i);
                        }
                        _ => {}
                    }
                    feed_tx(out, &mut rx, &t);
                }
            }
            8 => {
                // start a fragmented PDU (first fragment carries the label)
                if open.len() < 2 {
                    let label = *rng.pick(&ALPHA);
                    let id = if open.iter().any(|o| o.1.frag_id() == 10) { 11 } else { 10 };
                    let t = ev_encap(out, &mut enc, &pool.mid, id, label, 0x0800, rng.range(14, 30), None, None);
                    if let Some(Ok(EncapStatus::FragmentedPkt(_, c))) = &t.res {
                        open.push((pool.mid.clone(), *c));
                    }
                    feed_tx(out, &mut rx, &t);
                }
            }
            9 => {
                // encap_ext with a small chain
                let label = *rng.pick(&ALPHA);
                let exts = match rng.below(3) {
                    0 => vec![ExtSpec { id: 0x0100, data: vec![] }],
                    1 => vec![ExtSpec { id: 0x0211, data: vec![1, 2] }, ExtSpec { id: 0x0042, data: vec![7, 8, 9] }],
                    _ => vec![ExtSpec { id: 0x0322, data: vec![1, 2, 3, 4] }],
                };
                let t = ev_encap(out, &mut enc, rng.pick(&pool.small), 3, label, 0x0800, 80, Some(&exts), None);
                feed_tx(out, &mut rx, &t);
            }
            _ => {
                // plain send; labels are drawn with a bias towards repeating the previous one
                let label = if rng.chance(1, 2) { ALPHA[rng.below(2) * 2] } else { *rng.pick(&ALPHA) };
                let t = ev_encap(out, &mut enc, rng.pick(&pool.small), 1, label, 0x0800, 64, None, None);
                feed_tx(out, &mut rx, &t);
            }
        }
    }
    rx.ev_drain(out);
}

fn label_of(name: &str) -> Label {
    match name {
        "A6" => LA6,
        "B6" => LB6,
        "A3" => LA3,
        "B3" => LB3,
        "BC" => Label::Broadcast,
        _ => Label::ReUse,
    }
}

/// S->I: replay behaviours enumerated by TLC from MC_Labels (inputs only; the real
/// encapsulator decides by itself whether it substitutes).
fn run_scn(out: &mut Out, rng: &mut Rng, pool: &Pool, path: &str) {
    let text = std::fs::read_to_string(path).unwrap_or_default();
    for line in text.lines() {
        let mut it = line.split_whitespace();
        let _ = it.next();
        let mgr = TableMgr { known: vec![] };
        let mut rx = mk_rx(out, "labels", "tlc", 3, 64, 2, mgr, true);
        let mut enc = Encapsulator::new(DefaultCrc {});
        for (k, tok) in it.enumerate() {
            let mut p = tok.split(':');
            let op = p.next().unwrap_or("");
            let arg = p.next().unwrap_or("0");
            let pdu = &pool.small[k % pool.small.len()];
            match op {
                "send" => {
                    let t = ev_encap(out, &mut enc, pdu, 1, label_of(arg), 0x0800, 64, None, None);
                    feed_tx(out, &mut rx, &t);
                }
                "starve" => {
                    // the receiver has no storage for this packet
                    let mut taken = vec![];
                    while let Some(b) = rx.ev_take(out) {
                        taken.push(b);
                        if taken.len() > 16 {
                            break;
                        }
                    }
                    let t = ev_encap(out, &mut enc, pdu, 1, label_of(arg), 0x0800, 64, None, None);
                    feed_tx(out, &mut rx, &t);
                    for b in taken {
                        rx.ev_provision_buf(out, b);
                    }
                }
                "fail" => {
                    let label = label_of(arg);
                    let some_exts = [ExtSpec { id: 0x0322, data: vec![1, 2, 3, 4] }];
                    match (k + arg.len() + line.len()) % 5 {
                        3 => ev_encap(out, &mut enc, pdu, 2, label, 0x0800, rng.below(12), Some(&some_exts), None),
                        4 => ev_encap(out, &mut enc, &pool.toolong, 2, label, 0x0800, 100, Some(&some_exts), None),
                        0 => ev_encap(out, &mut enc, pdu, 2, label, 0x0800, rng.below(4), None, None),
                        1 => ev_encap(out, &mut enc, &pool.toolong, 2, label, 0x0800, 100, None, None),
                        _ => ev_encap(out, &mut enc, pdu, 2, label, 0x0100, 64, None, None),
                    };
                }
                "other" => {
                    let stray = P { kind: 0, lt: 3, fragid: 99, tl: 0, ptype: 0, label: vec![], chain: vec![], payload: vec![1, 2], crc: 0, gse_len: None };
                    feed(out, &mut rx, &stray.ser(), vec![]);
                }
                "reset" => {
                    ev_cfg(out, &mut enc, Cfg::Reset);
                    rx.ev_reset(out);
                }
                "disable" => ev_cfg(out, &mut enc, Cfg::Disable),
                "enable" => ev_cfg(out, &mut enc, Cfg::Enable),
                "enable_max" => ev_cfg(out, &mut enc, Cfg::EnableMax(arg.parse().unwrap_or(0))),
                _ => {}
            }
        }
        // two more sends of the first label so that the state reached is observed
        let t = ev_encap(out, &mut enc, &pool.small[0], 1, LA6, 0x0800, 64, None, None);
        feed_tx(out, &mut rx, &t);
        let t = ev_encap(out, &mut enc, &pool.small[1], 1, LA6, 0x0800, 64, None, None);
        feed_tx(out, &mut rx, &t);
        rx.ev_drain(out);
    }
}

/// full label, then exactly n re-uses (counter at its maximum), then a failing call of the given
/// kind, then the same label again twice: the failed call must not have touched the counter
fn at_max_then_fail(out: &mut Out, pool: &Pool, n: u8, kind: usize) {
    let mgr = TableMgr { known: vec![] };
    let mut rx = mk_rx(out, "labels", "at_max_then_fail", 3, 64, 3, mgr, true);
    let mut enc = Encapsulator::new(DefaultCrc {});
    ev_cfg(out, &mut enc, Cfg::EnableMax(n));
    for i in 0..=(n as usize) {
        let t = ev_encap(out, &mut enc, &pool.small[i % 4], 1, LA6, 0x0800, 64, None, None);
        feed_tx(out, &mut rx, &t);
    }
    let exts = [ExtSpec { id: 0x0211, data: vec![1, 2] }];
    match kind {
        0 => ev_encap(out, &mut enc, &pool.small[0], 2, LA6, 0x0800, 3, None, None),
        1 => ev_encap(out, &mut enc, &pool.toolong, 2, LA6, 0x0800, 100, None, None),
        2 => ev_encap(out, &mut enc, &pool.small[0], 2, LA6, 0x0800, 9, Some(&exts), None),
        3 => ev_encap(out, &mut enc, &pool.toolong, 2, LA6, 0x0800, 100, Some(&exts), None),
        4 => ev_encap(out, &mut enc, &pool.small[0], 2, LA6, 0x0300, 64, None, None),
        _ => ev_encap(out, &mut enc, &pool.small[0], 2, LA6, 0x0041, 64, Some(&exts), None),
    };
    for i in 0..3 {
        let t = ev_encap(out, &mut enc, &pool.small[i % 4], 1, LA6, 0x0800, 64, None, None);
        feed_tx(out, &mut rx, &t);
    }
    rx.ev_drain(out);
}

pub fn run(out: &mut Out, seed: u64, thorough: bool, scn: Option<&str>) {
    let mut rng = Rng::new(seed ^ 0x1ABE);
    let pool = Pool {
        small: (0..4).map(|i| Pdu::random(out, 3 + i * 5, &mut rng)).collect(),
        mid: Pdu::random(out, 50, &mut rng),
        toolong: Pdu::random(out, 65534, &mut rng),
        almost6: Pdu::random(out, 65530, &mut rng),
        almost3: Pdu::random(out, 65531, &mut rng),
    };
    if let Some(path) = scn {
        run_scn(out, &mut rng, &pool, path);
        return;
    }
    // counter behaviour at the configured maxima, including the wrap at 255
    for (n, reps) in [(0u8, 8usize), (1, 8), (2, 10), (3, 12), (255, if thorough { 600 } else { 300 })] {
        history(out, &mut rng, &pool, 0, "max_run", Some((Cfg::EnableMax(n), LA6, reps)));
    }
    history(out, &mut rng, &pool, 0, "disabled_run", Some((Cfg::Disable, LA3, 6)));
    // A, then B through encap / encap_ext as a complete packet or as a first fragment (+ its continuation), then A
    // again (and B again): the remembered label must follow what was actually put on the wire
    // (the last pairs: a 3-byte label and the 6-byte labels that contain the same bytes after / before three zeros)
    let l6pre = Label::SixBytesLabel([0, 0, 0, 0x0A, 0x0B, 0x0C]);
    let l6post = Label::SixBytesLabel([0x0A, 0x0B, 0x0C, 0, 0, 0]);
    for (a, b) in [(LA6, LB6), (LA6, Label::Broadcast), (LA3, LA6), (LB3, LA3), (LA3, l6pre), (l6pre, LA3), (LA3, l6post), (l6post, LA3)] {
        for use_ext in [false, true] {
            for fragmented in [false, true] {
                let mgr = TableMgr { known: vec![(0x0042, false, 3)] };
                let mut rx = mk_rx(out, "labels", "a_b_a", 3, 64, 3, mgr, true);
                let mut enc = Encapsulator::new(DefaultCrc {});
                let exts = [ExtSpec { id: 0x0211, data: vec![1, 2] }, ExtSpec { id: 0x0042, data: vec![7, 8, 9] }];
                let t = ev_encap(out, &mut enc, &pool.small[0], 1, a, 0x0800, 64, None, None);
                feed_tx(out, &mut rx, &t);
                let buf = if fragmented { 30 } else { 100 };
                let t = ev_encap(out, &mut enc, &pool.mid, 12, b, 0x0800, buf, if use_ext { Some(&exts) } else { None }, None);
                feed_tx(out, &mut rx, &t);
                let mut ctx = match &t.res {
                    Some(Ok(EncapStatus::FragmentedPkt(_, c))) => Some(*c),
                    _ => None,
                };
                // A again while B's PDU is still being fragmented, then finish B, then B and A again
                let t = ev_encap(out, &mut enc, &pool.small[1], 1, a, 0x0800, 64, None, None);
                feed_tx(out, &mut rx, &t);
                let mut guard = 0;
                while let Some(c) = ctx {
                    guard += 1;
                    if guard > 8 {
                        break;
                    }
                    let t = ev_encap_frag(out, &enc, &pool.mid, &c, 40);
                    ctx = match &t.res {
                        Some(Ok(EncapStatus::FragmentedPkt(_, c2))) => Some(*c2),
                        _ => None,
                    };
                    feed_tx(out, &mut rx, &t);
                }
                for lab in [b, a, a] {
                    let t = ev_encap(out, &mut enc, &pool.small[2], 1, lab, 0x0800, 64, if use_ext { Some(&exts) } else { None }, None);
                    feed_tx(out, &mut rx, &t);
                }
                rx.ev_drain(out);
            }
        }
    }
    // a signalling PDU (the type field is a final mandatory extension, through encap_ext or plain encap) with
    // another label, or for everybody, between two packets to the same label: it is a start packet like any other
    for b in [LB6, Label::Broadcast, LA3] {
        for via_ext in [true, false] {
            for fragmented in [false, true] {
                let mgr = TableMgr { known: vec![(0x0046, true, 0), (0x0081, true, 0)] };
                let mut rx = mk_rx(out, "labels", "signalling_between", 3, 64, 3, mgr, true);
                let mut enc = Encapsulator::new(DefaultCrc {});
                let exts = [ExtSpec { id: 0x0046, data: vec![] }];
                let t = ev_encap(out, &mut enc, &pool.small[0], 1, LA6, 0x0800, 64, None, None);
                feed_tx(out, &mut rx, &t);
                let buf = if fragmented { 30 } else { 100 };
                let t = if via_ext {
                    ev_encap(out, &mut enc, &pool.mid, 12, b, 0x0046, buf, Some(&exts), None)
                } else {
                    ev_encap(out, &mut enc, &pool.mid, 12, b, 0x0081, buf, None, None)
                };
                feed_tx(out, &mut rx, &t);
                let mut ctx = match &t.res {
                    Some(Ok(EncapStatus::FragmentedPkt(_, c))) => Some(*c),
                    _ => None,
                };
                let mut guard = 0;
                while let Some(c) = ctx {
                    guard += 1;
                    if guard > 8 {
                        break;
                    }
                    let t = ev_encap_frag(out, &enc, &pool.mid, &c, 40);
                    ctx = match &t.res {
                        Some(Ok(EncapStatus::FragmentedPkt(_, c2))) => Some(*c2),
                        _ => None,
                    };
                    feed_tx(out, &mut rx, &t);
                }
                for lab in [LA6, LA6, b, LA6] {
                    let t = ev_encap(out, &mut enc, &pool.small[2], 1, lab, 0x0800, 64, None, None);
                    feed_tx(out, &mut rx, &t);
                }
                rx.ev_drain(out);
            }
        }
    }
    // a maximum of n consecutive re-uses with fragmented PDUs in the streak: a first fragment whose label was replaced
    // counts like a complete packet (every second / third PDU is sent in fragments)
    for n in 1..=3u8 {
        for every in [2usize, 3] {
            let mgr = TableMgr { known: vec![] };
            let mut rx = mk_rx(out, "labels", "max_run_fragmented", 3, 64, 3, mgr, true);
            let mut enc = Encapsulator::new(DefaultCrc {});
            ev_cfg(out, &mut enc, Cfg::EnableMax(n));
            for i in 0..(3 * n as usize + 6) {
                let frag = i % every == every - 1;
                let (pdu, buf) = if frag { (&pool.mid, 30) } else { (&pool.small[i % 4], 64) };
                let t = ev_encap(out, &mut enc, pdu, 20 + (i % 2) as u8, LA6, 0x0800, buf, None, None);
                feed_tx(out, &mut rx, &t);
                let mut ctx = match &t.res {
                    Some(Ok(EncapStatus::FragmentedPkt(_, c))) => Some(*c),
                    _ => None,
                };
                let mut guard = 0;
                while let Some(c) = ctx {
                    guard += 1;
                    if guard > 8 {
                        break;
                    }
                    let t = ev_encap_frag(out, &enc, pdu, &c, 40);
                    ctx = match &t.res {
                        Some(Ok(EncapStatus::FragmentedPkt(_, c2))) => Some(*c2),
                        _ => None,
                    };
                    feed_tx(out, &mut rx, &t);
                }
            }
            rx.ev_drain(out);
        }
    }
    // a re-use label passed by the caller in the middle of a streak neither spends nor refills the budget of
    // substitutions
    for n in 1..=3u8 {
        for k in 0..=(n as usize) {
            for nexp in 1..=2usize {
                let mgr = TableMgr { known: vec![] };
                let mut rx = mk_rx(out, "labels", "explicit_reuse_in_streak", 3, 64, 3, mgr, true);
                let mut enc = Encapsulator::new(DefaultCrc {});
                ev_cfg(out, &mut enc, Cfg::EnableMax(n));
                for i in 0..=k {
                    let t = ev_encap(out, &mut enc, &pool.small[i % 4], 1, LA3, 0x0800, 64, None, None);
                    feed_tx(out, &mut rx, &t);
                }
                for _ in 0..nexp {
                    let t = ev_encap(out, &mut enc, &pool.small[1], 1, Label::ReUse, 0x0800, 64, None, None);
                    feed_tx(out, &mut rx, &t);
                }
                for i in 0..(n as usize + 3) {
                    let t = ev_encap(out, &mut enc, &pool.small[i % 4], 1, LA3, 0x0800, 64, None, None);
                    feed_tx(out, &mut rx, &t);
                }
                rx.ev_drain(out);
            }
        }
    }
    // a train whose first fragment was a re-use of A is still open while a packet with another label B goes out in
    // full; the train ends; B is sent again (a re-use of B): fragments carry no label and must not touch either
    // side's label memory, whether the train's own first fragment was a re-use or not
    for (a, b) in [(LA6, LB6), (LA3, LA6), (LA6, Label::Broadcast), (LB3, LA3), (Label::Broadcast, LA6), (Label::Broadcast, LA3)] {
        for first_reuse in [true, false] {
            for use_ext in [false, true] {
                let mgr = TableMgr { known: vec![] };
                let mut rx = mk_rx(out, "labels", "reuse_train_then_other", 3, 64, 3, mgr, true);
                let mut enc = Encapsulator::new(DefaultCrc {});
                let exts = [ExtSpec { id: 0x0211, data: vec![1, 2] }];
                if first_reuse {
                    let t = ev_encap(out, &mut enc, &pool.small[0], 1, a, 0x0800, 64, None, None);
                    feed_tx(out, &mut rx, &t);
                }
                let t = ev_encap(out, &mut enc, &pool.mid, 12, a, 0x0800, 30, if use_ext { Some(&exts) } else { None }, None);
                feed_tx(out, &mut rx, &t);
                let mut ctx = match &t.res {
                    Some(Ok(EncapStatus::FragmentedPkt(_, c))) => Some(*c),
                    _ => None,
                };
                let t = ev_encap(out, &mut enc, &pool.small[1], 1, b, 0x0800, 64, None, None);
                feed_tx(out, &mut rx, &t);
                let mut guard = 0;
                while let Some(c) = ctx {
                    guard += 1;
                    if guard > 8 {
                        break;
                    }
                    let t = ev_encap_frag(out, &enc, &pool.mid, &c, 30);
                    ctx = match &t.res {
                        Some(Ok(EncapStatus::FragmentedPkt(_, c2))) => Some(*c2),
                        _ => None,
                    };
                    feed_tx(out, &mut rx, &t);
                }
                for lab in [b, b, a, a] {
                    let t = ev_encap(out, &mut enc, &pool.small[2], 1, lab, 0x0800, 64, None, None);
                    feed_tx(out, &mut rx, &t);
                }
                rx.ev_drain(out);
            }
        }
    }
    // label A goes out; a call with another label B fails - for every reason a call can fail, through encap and
    // through encap_ext, including "too long only because of the label bytes"; then B, B, A are sent.  The
    // failed call emitted nothing: the first B must carry its label in full
    for (b, almost) in [(LB6, 0usize), (LA3, 1)] {
        for kind in 0..11usize {
            let mgr = TableMgr { known: vec![] };
            let mut rx = mk_rx(out, "labels", "a_failB_b", 3, 64, 3, mgr, true);
            let mut enc = Encapsulator::new(DefaultCrc {});
            let exts = [ExtSpec { id: 0x0211, data: vec![1, 2] }];
            let t = ev_encap(out, &mut enc, &pool.small[0], 1, LA6, 0x0800, 64, None, None);
            feed_tx(out, &mut rx, &t);
            let big = if almost == 0 { &pool.almost6 } else { &pool.almost3 };
            match kind {
                0 => ev_encap(out, &mut enc, &pool.small[1], 2, b, 0x0800, 3, None, None),
                1 => ev_encap(out, &mut enc, &pool.toolong, 2, b, 0x0800, 100, None, None),
                2 => ev_encap(out, &mut enc, big, 2, b, 0x0800, 100, None, None),
                3 => ev_encap(out, &mut enc, big, 2, b, 0x0800, 4097, None, None),
                4 => ev_encap(out, &mut enc, &pool.small[1], 2, b, 0x0300, 64, None, None),
                5 => ev_encap(out, &mut enc, &pool.small[1], 2, b, 0x0800, 9, Some(&exts), None),
                6 => ev_encap(out, &mut enc, &pool.toolong, 2, b, 0x0800, 100, Some(&exts), None),
                7 => ev_encap(out, &mut enc, big, 2, b, 0x0800, 100, Some(&exts), None),
                8 => ev_encap(out, &mut enc, big, 2, b, 0x0800, 4097, Some(&exts), None),
                9 => ev_encap(out, &mut enc, &pool.small[1], 2, b, 0x0041, 64, Some(&exts), None),
                _ => ev_encap(out, &mut enc, &pool.small[1], 2, b, 0x0800, 64, Some(&[]), None),
            };
            for lab in [b, b, LA6, LA6] {
                let t = ev_encap(out, &mut enc, &pool.small[2], 1, lab, 0x0800, 64, None, None);
                feed_tx(out, &mut rx, &t);
            }
            rx.ev_drain(out);
        }
    }
    // the maximum is re-configured in the middle of a streak of re-uses (lowered, raised, same value)
    for (n1, n2) in [(3u8, 1u8), (2, 1), (3, 2), (255, 1), (1, 3), (2, 2), (4, 0), (0, 2)] {
        let mgr = TableMgr { known: vec![] };
        let mut rx = mk_rx(out, "labels", "reconfigure_mid_streak", 3, 64, 3, mgr, true);
        let mut enc = Encapsulator::new(DefaultCrc {});
        ev_cfg(out, &mut enc, Cfg::EnableMax(n1));
        let k1 = if n1 == 0 || n1 > 6 { 5 } else { n1 as usize + 1 };
        for i in 0..k1 {
            let t = ev_encap(out, &mut enc, &pool.small[i % 4], 1, LA3, 0x0800, 64, None, None);
            feed_tx(out, &mut rx, &t);
        }
        ev_cfg(out, &mut enc, Cfg::EnableMax(n2));
        for i in 0..(n2 as usize + 4) {
            let t = ev_encap(out, &mut enc, &pool.small[i % 4], 1, LA3, 0x0800, 64, None, None);
            feed_tx(out, &mut rx, &t);
        }
        rx.ev_drain(out);
    }
    // configuration calls between packets, every ordered pair of them (the same call twice included), from every
    // starting policy: label A, call 1, label B (or nothing), call 2, label A twice.  Whatever the calls were,
    // the second A may only be substituted if the packet before it carried A
    let cfgs = [Cfg::Disable, Cfg::Enable, Cfg::EnableMax(0), Cfg::EnableMax(1), Cfg::EnableMax(2)];
    for start in [None, Some(Cfg::EnableMax(1)), Some(Cfg::EnableMax(2)), Some(Cfg::Disable)] {
        for c1 in cfgs {
            for c2 in cfgs {
                for with_b in [true, false] {
                    let mgr = TableMgr { known: vec![] };
                    let mut rx = mk_rx(out, "labels", "cfg_between", 3, 64, 3, mgr, true);
                    let mut enc = Encapsulator::new(DefaultCrc {});
                    if let Some(c0) = start {
                        ev_cfg(out, &mut enc, c0);
                    }
                    let t = ev_encap(out, &mut enc, &pool.small[0], 1, LA6, 0x0800, 64, None, None);
                    feed_tx(out, &mut rx, &t);
                    ev_cfg(out, &mut enc, c1);
                    if with_b {
                        let t = ev_encap(out, &mut enc, &pool.small[1], 1, LB3, 0x0800, 64, None, None);
                        feed_tx(out, &mut rx, &t);
                    }
                    ev_cfg(out, &mut enc, c2);
                    for i in 0..3 {
                        let t = ev_encap(out, &mut enc, &pool.small[(2 + i) % 4], 1, LA6, 0x0800, 64, None, None);
                        feed_tx(out, &mut rx, &t);
                    }
                    rx.ev_drain(out);
                }
            }
        }
    }
    // the CRC calculator is replaced in the middle of a streak: policy (disabled / maximum), counter and
    // remembered label are not its business
    for (ci, cfg) in [Cfg::Disable, Cfg::EnableMax(1), Cfg::EnableMax(2), Cfg::EnableMax(3), Cfg::Enable].into_iter().enumerate() {
        for before in 1..=3usize {
            let mgr = TableMgr { known: vec![] };
            let mut rx = mk_rx(out, "labels", "set_crc_mid_streak", 3, 64, 3, mgr, true);
            let mut enc = Encapsulator::new(DefaultCrc {});
            ev_cfg(out, &mut enc, cfg);
            for i in 0..before {
                let t = ev_encap(out, &mut enc, &pool.small[i % 4], 1, LA6, 0x0800, 64, None, None);
                feed_tx(out, &mut rx, &t);
            }
            ev_set_crc(out, &mut enc);
            for i in 0..(4 + ci) {
                let t = ev_encap(out, &mut enc, &pool.small[i % 4], 1, LA6, 0x0800, 64, None, None);
                feed_tx(out, &mut rx, &t);
            }
            rx.ev_drain(out);
        }
    }
    // the all-zero 6-byte label must be refused every time, by encap and by encap_ext
    for use_ext in [false, true] {
        let mgr = TableMgr { known: vec![] };
        let mut rx = mk_rx(out, "labels", "zero_label_repeated", 3, 64, 3, mgr, true);
        let mut enc = Encapsulator::new(DefaultCrc {});
        let exts = [ExtSpec { id: 0x0211, data: vec![1, 2] }];
        let t = ev_encap(out, &mut enc, &pool.small[0], 1, LA6, 0x0800, 64, None, None);
        feed_tx(out, &mut rx, &t);
        for i in 0..3 {
            let t = ev_encap(out, &mut enc, &pool.small[i % 4], 1, LZ6, 0x0800, 80, if use_ext { Some(&exts) } else { None }, None);
            feed_tx(out, &mut rx, &t);
        }
        let t = ev_encap(out, &mut enc, &pool.small[1], 1, LA6, 0x0800, 64, None, None);
        feed_tx(out, &mut rx, &t);
        rx.ev_drain(out);
    }
    for n in [1u8, 2, 3] {
        for kind in 0..6 {
            at_max_then_fail(out, &pool, n, kind);
        }
    }
    let nh = if thorough { 400 } else { 50 };
    for _ in 0..nh {
        let nops = if thorough { rng.range(20, 200) } else { rng.range(20, 80) };
        history(out, &mut rng, &pool, nops, "random", None);
    }
    // directed receiver histories: label A accepted, then a start/complete packet carrying label B that is
    // rejected for one of several reasons, then a re-use packet: it must not be attributed to A
    for reason in 0..9 {
        for first_b in [false, true] {
            for first_ru in [false, true] {
                let mgr = TableMgr { known: vec![(0x0042, false, 3)] };
                let mut rx = mk_rx(out, "labels", "rejected_then_reuse", 2, 32, 2, mgr, false);
                let a = [1u8, 2, 3, 4, 5, 6];
                let b = [9u8, 9, 9];
                feed(out, &mut rx, &complete(&[1, 2, 3], &a, false, 0x0800).ser(), vec![]);
                let mut taken = vec![];
                let mk = |pdu: &[u8], ptype: u16, chain: Vec<u8>| -> Vec<u8> {
                    let mut p = if first_b { train(pdu, &b, false, ptype, 6, &[pdu.len() / 2])[0].clone() } else { complete(pdu, &b, false, ptype) };
                    p.chain = chain;
                    p.ser()
                };
                let bytes = match reason {
                    0 => mk(&[7; 8], 0x0099, vec![0x08, 0x00]),          // unknown mandatory extension
                    1 => mk(&[7; 8], 0x0211, vec![0xAA, 0xBB, 0x00, 0x77, 0x08, 0x00]), // unknown mandatory later in the chain
                    2 => mk(&[7; 80], 0x0800, vec![]),                    // larger than the storage
                    3 => {
                        // no storage at all
                        while let Some(x) = rx.ev_take(out) {
                            taken.push(x);
                            if taken.len() > 16 {
                                break;
                            }
                        }
                        mk(&[7; 8], 0x0800, vec![])
                    }
                    4 => {
                        let mut v = mk(&[7; 8], 0x0800, vec![]);
                        v.truncate(v.len() - 2); // announced length exceeds the buffer
                        v
                    }
                    5 => mk(&[7; 8], 0x0042, vec![1, 2]),                 // known extension, chain cut short
                    6 => mk(&[], 0x0042, vec![1, 2]),                     // ... cut by the GSE length itself (data incomplete)
                    7 => mk(&[], 0x0211, vec![0xAA]),                     // optional extension, data incomplete
                    _ => mk(&[], 0x0211, vec![0xAA, 0xBB]),               // data complete, the type field after it is missing
                };
                feed(out, &mut rx, &bytes, vec![]);
                for x in taken {
                    rx.ev_provision_buf(out, x);
                }
                let ru = if first_ru { train(&[4; 10], &b, true, 0x0800, 7, &[5])[0].ser() } else { complete(&[4; 10], &b, true, 0x0800).ser() };
                feed(out, &mut rx, &ru, vec![]);
                rx.ev_drain(out);
            }
        }
    }
    // receiver-only histories: start/complete packets accepted or rejected, any label type,
    // fragments, padding, garbage, resets
    let nr = if thorough { 500 } else { 80 };
    for i in 0..nr {
        let mgr = TableMgr { known: vec![(0x0042, false, 3), (0x0043, true, 2), (0x0081, true, 0)] };
        let nbuf = i % 3; // 0: starved receiver
        let mut rx = mk_rx(out, "labels", "rxonly", 2, 64, nbuf, mgr, false);
        let steps = rng.range(4, 30);
        for _ in 0..steps {
            match rng.below(10) {
                0 => rx.ev_reset(out),
                1 | 2 => {
                    // explicit re-use start / complete packet
                    let n = rng.range(0, 20);
                    let pdu = rng.bytes(n);
                    let bytes = if rng.chance(1, 2) {
                        complete(&pdu, &[1, 2, 3], true, 0x0800).ser()
                    } else {
                        train(&pdu, &[1, 2, 3], true, 0x0800, 4, &[n / 2])[0].ser()
                    };
                    feed(out, &mut rx, &bytes, vec![]);
                }
                3 => {
                    feed(out, &mut rx, &vec![0u8; rng.range(2, 6)], vec![]);
                }
                _ => {
                    let bytes = random_packet(&mut rng);
                    feed(out, &mut rx, &bytes, vec![]);
                }
            }
        }
        rx.ev_drain(out);
    }
}

// --------------------------------------------------------------------- sysscn
/// S->I: behaviours of the composed model MC_System (sender with several open trains, label policy,
/// configuration calls, frame boundaries, an in-order channel that may lose or duplicate) replayed on the real
/// encapsulator and decapsulator.  With a faithful channel the packets are fed as they are produced
/// (lock-step: every obligation of C01 C02 C04 applies); with loss / duplication the channel is a queue and
/// only the safety clauses apply.
pub fn sysscn(out: &mut Out, path: &str, seed: u64) {
    let text = std::fs::read_to_string(path).unwrap_or_default();
    let mut rng = Rng::new(seed ^ 0x5157);
    for line in text.lines() {
        let mut it = line.split_whitespace();
        let slots: usize = it.next().and_then(|s| s.parse().ok()).unwrap_or(2);
        let lossy = line.contains(" lose") || line.contains(" twice");
        let mgr = TableMgr { known: vec![] };
        let mut rx = mk_rx(out, "sysscn", if lossy { "tlc_lossy" } else { "tlc" }, slots, 64, 3, mgr, !lossy);
        let mut enc = Encapsulator::new(DefaultCrc {});
        let mut open: Vec<(u8, Pdu, ContextFrag, usize)> = vec![]; // id, pdu, context, next packet (2 or 3)
        let mut chan: std::collections::VecDeque<Vec<u8>> = Default::default();
        for id in 0..4u8 {
            rx.note_id(id);
        }
        let mut push = |out: &mut Out, rx: &mut Rx<DefaultCrc>, chan: &mut std::collections::VecDeque<Vec<u8>>, wire: Vec<u8>| {
            if lossy {
                chan.push_back(wire);
            } else {
                rx.ev_peek(out, &wire, true);
                feed(out, rx, &wire, vec![]);
            }
        };
        for tok in it {
            let f: Vec<&str> = tok.split(':').collect();
            match f[0] {
                "sub" => {
                    let label = match f.get(1).copied().unwrap_or("A") {
                        "A" => LA6,
                        "B" => LB3,
                        "bc" => Label::Broadcast,
                        _ => Label::ReUse,
                    };
                    let frag = f.get(2).copied() == Some("1");
                    let id: u8 = f.get(3).and_then(|s| s.parse().ok()).unwrap_or(0);
                    let pdu = Pdu::random(out, 30, &mut rng);
                    // fragmented: the first fragment carries 10 PDU bytes (more when the label is replaced)
                    let buf = if frag { 7 + label.len() + 10 } else { 200 };
                    let t = ev_encap(out, &mut enc, &pdu, id, label, 0x0800, buf, None, None);
                    match &t.res {
                        Some(Ok(EncapStatus::CompletedPkt(_))) => push(out, &mut rx, &mut chan, t.wire.clone()),
                        Some(Ok(EncapStatus::FragmentedPkt(_, c))) => {
                            push(out, &mut rx, &mut chan, t.wire.clone());
                            open.retain(|o| o.0 != id);
                            open.push((id, pdu.clone(), *c, 2));
                        }
                        _ => {}
                    }
                }
                "cont" => {
                    let id: u8 = f.get(1).and_then(|s| s.parse().ok()).unwrap_or(0);
                    if let Some(i) = open.iter().position(|o| o.0 == id) {
                        let (_, pdu, ctx, next) = open[i].clone();
                        let t = ev_encap_frag(out, &enc, &pdu, &ctx, if next == 2 { 13 } else { 4097 });
                        match &t.res {
                            Some(Ok(EncapStatus::CompletedPkt(_))) => {
                                push(out, &mut rx, &mut chan, t.wire.clone());
                                open.remove(i);
                            }
                            Some(Ok(EncapStatus::FragmentedPkt(_, c))) => {
                                push(out, &mut rx, &mut chan, t.wire.clone());
                                open[i].2 = *c;
                                open[i].3 = 3;
                            }
                            _ => {}
                        }
                    }
                }
                "cfg" => match f.get(1).copied().unwrap_or("") {
                    "disable" => ev_cfg(out, &mut enc, Cfg::Disable),
                    "enable" => ev_cfg(out, &mut enc, Cfg::Enable),
                    _ => ev_cfg(out, &mut enc, Cfg::EnableMax(f.get(2).and_then(|s| s.parse().ok()).unwrap_or(1))),
                },
                "frame" => {
                    ev_cfg(out, &mut enc, Cfg::Reset);
                    rx.ev_reset(out);
                }
                "recv" => {
                    if let Some(w) = chan.pop_front() {
                        feed(out, &mut rx, &w, vec![]);
                    }
                }
                "lose" => {
                    chan.pop_front();
                }
                "twice" => {
                    if let Some(w) = chan.front().cloned() {
                        feed(out, &mut rx, &w, vec![]);
                    }
                }
                _ => {}
            }
        }
        // what is still in flight arrives; open trains are finished
        while let Some(w) = chan.pop_front() {
            feed(out, &mut rx, &w, vec![]);
        }
        for (_, pdu, mut ctx, _) in open {
            for _ in 0..3 {
                let t = ev_encap_frag(out, &enc, &pdu, &ctx, 4097);
                match &t.res {
                    Some(Ok(EncapStatus::CompletedPkt(_))) => {
                        feed(out, &mut rx, &t.wire, vec![]);
                        break;
                    }
                    Some(Ok(EncapStatus::FragmentedPkt(_, c))) => {
                        feed(out, &mut rx, &t.wire, vec![]);
                        ctx = *c;
                    }
                    _ => break,
                }
            }
        }
        rx.ev_drain(out);
    }
}
