//! Receiver-side recording.  The decapsulator runs over a wrapper memory
//! (public GseDecapMemory trait) that logs every trait call made during a
//! decap; after each event the *real* SimpleGseMemory is projected by draining
//! clones of it.  Buffers are identified by their (unique) length.
use crate::tx::jlabel;
use crate::util::*;
use dvb_gse_rust::crc::CrcCalculator;
use dvb_gse_rust::gse_decap::{
    DecapContext, DecapError, DecapMemoryError, DecapMetadata, DecapStatus, Decapsulator,
    GetLabelorFragIdError, GseDecapMemory, LabelorFragId, SimpleGseMemory,
};
use dvb_gse_rust::header_extension::{
    Extension, ExtensionData, MandatoryHeaderExt, MandatoryHeaderExtensionManager,
};
use std::cell::RefCell;
use std::panic::AssertUnwindSafe;
use std::rc::Rc;

/// Mandatory-extension manager driven by a table: (id, final?, data size).
#[derive(Clone, Debug)]
pub struct TableMgr {
    pub known: Vec<(u16, bool, u8)>,
}
impl MandatoryHeaderExtensionManager for TableMgr {
    fn is_mandatory_header_id_known(&self, id: u16) -> MandatoryHeaderExt {
        for (k, f, s) in &self.known {
            if *k == id {
                return if *f { MandatoryHeaderExt::Final(*s) } else { MandatoryHeaderExt::NonFinal(*s) };
            }
        }
        MandatoryHeaderExt::Unknown
    }
}
impl TableMgr {
    pub fn json(&self) -> String {
        jlist(
            &self
                .known
                .iter()
                .map(|(k, f, s)| {
                    Obj::new().num("id", *k as usize).boolean("final", *f).num("size", *s as usize).end()
                })
                .collect::<Vec<_>>(),
        )
    }
}

pub type MemLog = Rc<RefCell<Vec<String>>>;

/// Wrapper around the bundled memory: forwards every call, logs it.
/// A second, independent implementation of the memory trait (a user-supplied memory as the crate's documentation
/// invites): one context per fragment id (no aliasing), first-in-first-out free list of `cap` buffers.
pub struct ExactMem {
    pub free: std::collections::VecDeque<Box<[u8]>>,
    pub ctxs: Vec<(DecapContext, Box<[u8]>)>,
    pub cap: usize,
    pub min: usize,
}
impl ExactMem {
    fn pos(&self, id: u8) -> Option<usize> {
        self.ctxs.iter().position(|c| c.0.frag_id == id)
    }
}
impl GseDecapMemory for ExactMem {
    fn new(max_frag_id: usize, max_pdu_size: usize, _: usize, _: usize) -> Self {
        ExactMem { free: Default::default(), ctxs: vec![], cap: max_frag_id + 2, min: max_pdu_size }
    }
    fn provision_storage(&mut self, storage: Box<[u8]>) -> Result<(), DecapMemoryError> {
        if storage.len() < self.min {
            return Err(DecapMemoryError::BufferTooSmall(storage));
        }
        if self.free.len() >= self.cap {
            return Err(DecapMemoryError::StorageOverflow(storage));
        }
        self.free.push_back(storage);
        Ok(())
    }
    fn new_pdu(&mut self) -> Result<Box<[u8]>, DecapMemoryError> {
        self.free.pop_front().ok_or(DecapMemoryError::StorageUnderflow)
    }
    fn new_frag(&mut self, context: DecapContext) -> Result<(DecapContext, Box<[u8]>), DecapMemoryError> {
        if let Some(i) = self.pos(context.frag_id) {
            let (_, buf) = self.ctxs.remove(i);
            return Ok((context, buf));
        }
        match self.free.pop_front() {
            Some(b) => Ok((context, b)),
            None => Err(DecapMemoryError::StorageUnderflow),
        }
    }
    fn take_frag(&mut self, frag_id: u8) -> Result<(DecapContext, Box<[u8]>), DecapMemoryError> {
        match self.pos(frag_id) {
            Some(i) => Ok(self.ctxs.remove(i)),
            None => Err(DecapMemoryError::UndefinedId),
        }
    }
    fn save_frag(&mut self, context: (DecapContext, Box<[u8]>)) -> Result<(), DecapMemoryError> {
        if self.pos(context.0.frag_id).is_some() {
            self.free.push_back(context.1); // refused: the buffer stays the memory's
            return Err(DecapMemoryError::MemoryCorrupted);
        }
        self.ctxs.push(context);
        Ok(())
    }
}

pub enum MemImpl {
    Simple(SimpleGseMemory),
    Exact(ExactMem),
}
impl MemImpl {
    fn provision_storage(&mut self, s: Box<[u8]>) -> Result<(), DecapMemoryError> {
        match self {
            MemImpl::Simple(m) => m.provision_storage(s),
            MemImpl::Exact(m) => m.provision_storage(s),
        }
    }
    fn new_pdu(&mut self) -> Result<Box<[u8]>, DecapMemoryError> {
        match self {
            MemImpl::Simple(m) => m.new_pdu(),
            MemImpl::Exact(m) => m.new_pdu(),
        }
    }
    fn new_frag(&mut self, c: DecapContext) -> Result<(DecapContext, Box<[u8]>), DecapMemoryError> {
        match self {
            MemImpl::Simple(m) => m.new_frag(c),
            MemImpl::Exact(m) => m.new_frag(c),
        }
    }
    fn take_frag(&mut self, id: u8) -> Result<(DecapContext, Box<[u8]>), DecapMemoryError> {
        match self {
            MemImpl::Simple(m) => m.take_frag(id),
            MemImpl::Exact(m) => m.take_frag(id),
        }
    }
    fn save_frag(&mut self, c: (DecapContext, Box<[u8]>)) -> Result<(), DecapMemoryError> {
        match self {
            MemImpl::Simple(m) => m.save_frag(c),
            MemImpl::Exact(m) => m.save_frag(c),
        }
    }
}

/// which memory the receivers of this run are built over (`--mem exact`)
static MEM_EXACT: std::sync::atomic::AtomicBool = std::sync::atomic::AtomicBool::new(false);
pub fn set_mem_exact(on: bool) {
    MEM_EXACT.store(on, std::sync::atomic::Ordering::Relaxed)
}
pub fn mem_exact() -> bool {
    MEM_EXACT.load(std::sync::atomic::Ordering::Relaxed)
}

pub struct RecMem {
    pub inner: MemImpl,
    pub log: MemLog,
    /// fault injection (C08 "all points at which a memory operation behind the trait can fail"): the next
    /// call of the named trait method fails in a way the trait allows, without touching the inner memory.
    /// variant 0: the error the trait documents for that method; variant 1: MemoryCorrupted.
    pub arm: Option<(&'static str, u8)>,
    /// buffers the failing memory swallowed (save_frag / provision answered MemoryCorrupted): they stay the
    /// memory's, in a place of their own
    pub stash: Vec<Box<[u8]>>,
}

impl RecMem {
    fn hit(&mut self, op: &str) -> Option<u8> {
        match self.arm {
            Some((o, v)) if o == op => {
                self.arm = None;
                Some(v)
            }
            _ => None,
        }
    }
    fn log_inj(&self, op: &str, id: usize, tag: usize, res: &str, back: usize) {
        self.log.borrow_mut().push(
            Obj::new().str("op", op).num("id", id).num("tag", tag).str("res", res).num("back", back).boolean("inj", true).end(),
        );
    }
}

fn mem_err(e: &DecapMemoryError) -> (String, Option<usize>) {
    match e {
        DecapMemoryError::StorageOverflow(b) => ("overflow".into(), Some(b.len())),
        DecapMemoryError::StorageUnderflow => ("underflow".into(), None),
        DecapMemoryError::UndefinedId => ("undefined".into(), None),
        DecapMemoryError::BufferTooSmall(b) => ("toosmall".into(), Some(b.len())),
        DecapMemoryError::MemoryCorrupted => ("corrupted".into(), None),
    }
}

pub fn jctxfields(c: &DecapContext) -> Obj {
    Obj::new()
        .num("id", c.frag_id as usize)
        .raw("label", &jlabel(&c.label))
        .num("ptype", c.protocol_type as usize)
        .num("tl", c.total_len as usize)
        .num("pdu_len", c.pdu_len as usize)
        .boolean("reuse", c.from_label_reuse)
        .raw("exts", &jextensions(&c.extensions_header))
}

impl GseDecapMemory for RecMem {
    fn new(a: usize, b: usize, c: usize, d: usize) -> Self {
        let inner = if mem_exact() { MemImpl::Exact(ExactMem::new(a, b, c, d)) } else { MemImpl::Simple(SimpleGseMemory::new(a, b, c, d)) };
        RecMem { inner, log: Rc::new(RefCell::new(vec![])), arm: None, stash: vec![] }
    }
    fn provision_storage(&mut self, storage: Box<[u8]>) -> Result<(), DecapMemoryError> {
        let tag = storage.len();
        if let Some(v) = self.hit("provision") {
            if v == 0 {
                self.log_inj("provision", 0, tag, "overflow", tag);
                return Err(DecapMemoryError::StorageOverflow(storage));
            }
            if v == 2 {
                // the other refusal the trait documents: the buffer is handed back as too small
                self.log_inj("provision", 0, tag, "toosmall", tag);
                return Err(DecapMemoryError::BufferTooSmall(storage));
            }
            self.log_inj("provision", 0, tag, "corrupted", 0);
            self.stash.push(storage);
            return Err(DecapMemoryError::MemoryCorrupted);
        }
        let r = self.inner.provision_storage(storage);
        let (res, back) = match &r {
            Ok(()) => ("ok".to_string(), None),
            Err(e) => mem_err(e),
        };
        self.log.borrow_mut().push(
            Obj::new()
                .str("op", "provision")
                .num("tag", tag)
                .str("res", &res)
                .num("back", back.unwrap_or(0))
                .end(),
        );
        r
    }
    fn new_pdu(&mut self) -> Result<Box<[u8]>, DecapMemoryError> {
        if let Some(v) = self.hit("new_pdu") {
            self.log_inj("new_pdu", 0, 0, if v == 0 { "underflow" } else { "corrupted" }, 0);
            return Err(if v == 0 { DecapMemoryError::StorageUnderflow } else { DecapMemoryError::MemoryCorrupted });
        }
        let r = self.inner.new_pdu();
        let (res, tag) = match &r {
            Ok(b) => ("ok".to_string(), b.len()),
            Err(e) => (mem_err(e).0, 0),
        };
        self.log.borrow_mut().push(Obj::new().str("op", "new_pdu").num("tag", tag).str("res", &res).end());
        r
    }
    fn new_frag(&mut self, context: DecapContext) -> Result<(DecapContext, Box<[u8]>), DecapMemoryError> {
        let id = context.frag_id as usize;
        if let Some(v) = self.hit("new_frag") {
            self.log_inj("new_frag", id, 0, if v == 0 { "underflow" } else { "corrupted" }, 0);
            return Err(if v == 0 { DecapMemoryError::StorageUnderflow } else { DecapMemoryError::MemoryCorrupted });
        }
        let r = self.inner.new_frag(context);
        let (res, tag) = match &r {
            Ok((_, b)) => ("ok".to_string(), b.len()),
            Err(e) => (mem_err(e).0, 0),
        };
        self.log
            .borrow_mut()
            .push(Obj::new().str("op", "new_frag").num("id", id).num("tag", tag).str("res", &res).end());
        r
    }
    fn take_frag(&mut self, frag_id: u8) -> Result<(DecapContext, Box<[u8]>), DecapMemoryError> {
        if let Some(v) = self.hit("take_frag") {
            self.log_inj("take_frag", frag_id as usize, 0, if v == 0 { "undefined" } else { "corrupted" }, 0);
            return Err(if v == 0 { DecapMemoryError::UndefinedId } else { DecapMemoryError::MemoryCorrupted });
        }
        let r = self.inner.take_frag(frag_id);
        let (res, tag) = match &r {
            Ok((_, b)) => ("ok".to_string(), b.len()),
            Err(e) => (mem_err(e).0, 0),
        };
        self.log.borrow_mut().push(
            Obj::new().str("op", "take_frag").num("id", frag_id as usize).num("tag", tag).str("res", &res).end(),
        );
        r
    }
    fn save_frag(&mut self, context: (DecapContext, Box<[u8]>)) -> Result<(), DecapMemoryError> {
        let id = context.0.frag_id as usize;
        let tag = context.1.len();
        if self.hit("save_frag").is_some() {
            self.log_inj("save_frag", id, tag, "corrupted", 0);
            self.stash.push(context.1);
            return Err(DecapMemoryError::MemoryCorrupted);
        }
        let r = self.inner.save_frag(context);
        let res = match &r {
            Ok(()) => "ok".to_string(),
            Err(e) => mem_err(e).0,
        };
        self.log
            .borrow_mut()
            .push(Obj::new().str("op", "save_frag").num("id", id).num("tag", tag).str("res", &res).end());
        r
    }
}

pub fn jextensions(e: &[Extension]) -> String {
    jlist(
        &e.iter()
            .map(|x| {
                let d: Vec<u8> = match x.data() {
                    ExtensionData::Data2(d) => d.to_vec(),
                    ExtensionData::Data4(d) => d.to_vec(),
                    ExtensionData::Data6(d) => d.to_vec(),
                    ExtensionData::Data8(d) => d.to_vec(),
                    ExtensionData::NoData => vec![],
                    ExtensionData::MandatoryData(d) => d.clone(),
                };
                Obj::new().num("id", x.id() as usize).bytes("data", &d).end()
            })
            .collect::<Vec<_>>(),
    )
}

fn hash_bytes(b: &[u8]) -> usize {
    // FNV-1a folded to 30 bits: a content fingerprint for "buffer unchanged" checks
    let mut h: u32 = 0x811C_9DC5;
    for x in b {
        h ^= *x as u32;
        h = h.wrapping_mul(0x0100_0193);
    }
    ((h ^ (h >> 15)) & 0x3FFF_FFFF) as usize
}

/// Project the real memory: free buffers (drain a clone with new_pdu) and the
/// context saved under each candidate id (take_frag on a *fresh* clone per id,
/// so that a take that disturbs other slots cannot hide anything).
pub fn project_mem(mem: &MemImpl, ids: &[u8]) -> String {
    match mem {
        MemImpl::Simple(m) => project_simple(m, ids),
        MemImpl::Exact(m) => {
            // the harness's own memory: read directly
            let free: Vec<usize> = m.free.iter().map(|b| b.len()).collect();
            let ctxs: Vec<String> = m
                .ctxs
                .iter()
                .map(|(ctx, buf)| {
                    let n = (ctx.pdu_len as usize).min(buf.len());
                    jctxfields(ctx).num("tag", buf.len()).num("h", hash_bytes(&buf[..n])).end()
                })
                .collect();
            Obj::new().boolean("ok", true).raw("free", &jnums(&free)).raw("ctxs", &jlist(&ctxs)).end()
        }
    }
}

pub fn project_simple(mem: &SimpleGseMemory, ids: &[u8]) -> String {
    let r = cu("memops", AssertUnwindSafe(|| {
        let mut free = vec![];
        let mut c = mem.clone();
        while let Ok(b) = c.new_pdu() {
            free.push(b.len());
            if free.len() > 64 {
                break;
            }
        }
        let mut ctxs = vec![];
        for id in ids {
            let mut c = mem.clone();
            if let Ok((ctx, buf)) = c.take_frag(*id) {
                let n = (ctx.pdu_len as usize).min(buf.len());
                ctxs.push(jctxfields(&ctx).num("tag", buf.len()).num("h", hash_bytes(&buf[..n])).end());
            }
        }
        Obj::new().boolean("ok", true).raw("free", &jnums(&free)).raw("ctxs", &jlist(&ctxs)).end()
    }));
    match r {
        Ok(s) => s,
        Err(_) => Obj::new().boolean("ok", false).raw("free", "[]").raw("ctxs", "[]").end(),
    }
}

pub fn decap_err_name(e: &DecapError) -> String {
    match e {
        DecapError::ErrorSizeBuffer => "ErrorSizeBuffer".into(),
        DecapError::ErrorTotalLength => "ErrorTotalLength".into(),
        DecapError::ErrorGseLength => "ErrorGseLength".into(),
        DecapError::ErrorSizePduBuffer => "ErrorSizePduBuffer".into(),
        DecapError::ErrorProtocolType => "ErrorProtocolType".into(),
        DecapError::ErrorMemory(m) => format!("ErrorMemory.{}", mem_err(m).0),
        DecapError::ErrorCrc => "ErrorCrc".into(),
        DecapError::ErrorInvalidLabel => "ErrorInvalidLabel".into(),
        DecapError::ErrorNoLabelSaved => "ErrorNoLabelSaved".into(),
        DecapError::ErrorLabelBroadcastSaved => "ErrorLabelBroadcastSaved".into(),
        DecapError::ErrorLabelReUseSaved => "ErrorLabelReUseSaved".into(),
        DecapError::ErrorUnkownMandatoryHeader => "ErrorUnkownMandatoryHeader".into(),
    }
}

pub fn jmeta(m: &DecapMetadata) -> String {
    Obj::new()
        .num("pdu_len", m.pdu_len())
        .num("ptype", m.protocol_type() as usize)
        .raw("label", &jlabel(&m.label()))
        .raw("exts", &jextensions(m.extensions()))
        .end()
}

pub type DecRes = Option<Result<(DecapStatus, usize), (DecapError, usize)>>;

/// What the caller got out of a decap call (for drivers).
pub struct RxOut {
    /// the `res` object exactly as logged in the event
    pub jres: String,
    pub res: DecRes,
    /// buffer handed to the caller (completed result or error value)
    pub returned: Option<Box<[u8]>>,
    pub consumed: Option<usize>,
}

pub struct Rx<C: CrcCalculator, M: MandatoryHeaderExtensionManager = TableMgr> {
    pub d: Decapsulator<RecMem, C, M>,
    /// candidate frag ids for the memory projection (third byte of every buffer seen)
    pub ids: Vec<u8>,
    pub project: bool,
}

impl<C: CrcCalculator> Rx<C, TableMgr> {
    pub fn new(slots: usize, pdu_size: usize, crc: C, mgr: TableMgr) -> Self {
        Rx::with_manager(slots, pdu_size, crc, mgr)
    }
}

impl<C: CrcCalculator, M: MandatoryHeaderExtensionManager> Rx<C, M> {
    /// a receiver over any manager, e.g. the crate's bundled ones
    pub fn with_manager(slots: usize, pdu_size: usize, crc: C, mgr: M) -> Self {
        let mem = RecMem::new(slots, pdu_size, 0, 0);
        Rx { d: Decapsulator::new(mem, crc, mgr), ids: vec![], project: true }
    }
    pub fn note_id(&mut self, id: u8) {
        if !self.ids.contains(&id) {
            self.ids.push(id);
        }
    }
    fn take_log(&mut self) -> String {
        let v: Vec<String> = self.d.memory.log.borrow_mut().drain(..).collect();
        jlist(&v)
    }
    pub fn jmem(&self) -> String {
        if self.project {
            let m = project_mem(&self.d.memory.inner, &self.ids);
            if self.d.memory.stash.is_empty() {
                m
            } else {
                let tags: Vec<usize> = self.d.memory.stash.iter().map(|b| b.len()).collect();
                format!("{},\"stash\":{}}}", &m[..m.len() - 1], jnums(&tags))
            }
        } else {
            Obj::new().boolean("ok", false).raw("free", "[]").raw("ctxs", "[]").end()
        }
    }

    /// provision a fresh buffer of the given (unique) length
    pub fn ev_provision(&mut self, out: &mut Out, len: usize) -> Option<Box<[u8]>> {
        self.ev_provision_buf(out, vec![0xEE; len].into_boxed_slice())
    }
    pub fn ev_provision_buf(&mut self, out: &mut Out, buf: Box<[u8]>) -> Option<Box<[u8]>> {
        let tag = buf.len();
        let r = cu("provision", AssertUnwindSafe(|| self.d.provision_storage(buf)));
        let (res, back): (String, Option<Box<[u8]>>) = match r {
            Err(_) => ("panic".into(), None),
            Ok(Ok(())) => ("ok".into(), None),
            Ok(Err(DecapMemoryError::StorageOverflow(b))) => ("overflow".into(), Some(b)),
            Ok(Err(DecapMemoryError::BufferTooSmall(b))) => ("toosmall".into(), Some(b)),
            Ok(Err(e)) => (mem_err(&e).0, None),
        };
        let memops = self.take_log();
        let line = Obj::new()
            .str("ev", "provision")
            .num("tag", tag)
            .str("res", &res)
            .num("back", back.as_ref().map(|b| b.len()).unwrap_or(0))
            .raw("memops", &memops)
            .raw("mem", &self.jmem())
            .end();
        out.emit(&line);
        back
    }

    /// the caller takes a free buffer out of the memory (Decapsulator::new_pdu)
    pub fn ev_take(&mut self, out: &mut Out) -> Option<Box<[u8]>> {
        let r = cu("take", AssertUnwindSafe(|| self.d.new_pdu()));
        let (res, buf): (&str, Option<Box<[u8]>>) = match r {
            Err(_) => ("panic", None),
            Ok(Ok(b)) => ("ok", Some(b)),
            Ok(Err(_)) => ("underflow", None),
        };
        let memops = self.take_log();
        out.emit(
            &Obj::new()
                .str("ev", "take")
                .str("res", res)
                .num("tag", buf.as_ref().map(|b| b.len()).unwrap_or(0))
                .raw("memops", &memops)
                .raw("mem", &self.jmem())
                .end(),
        );
        buf
    }

    pub fn ev_reset(&mut self, out: &mut Out) {
        self.d.reset_last_label();
        out.emit(&Obj::new().str("ev", "rx_reset").end());
    }

    /// decap with one injected memory failure: the next call of trait method `op` fails (see RecMem::arm)
    pub fn ev_decap_armed(&mut self, out: &mut Out, bytes: &[u8], op: &'static str, variant: u8) -> RxOut {
        self.d.memory.arm = Some((op, variant));
        let o = self.ev_decap(out, bytes, vec![]);
        self.d.memory.arm = None;
        o
    }

    /// decap on `bytes`; `extra` lets a driver attach facts (e.g. the twin's outcome).
    pub fn ev_decap(&mut self, out: &mut Out, bytes: &[u8], extra: Vec<(&str, String)>) -> RxOut {
        if bytes.len() > 2 {
            self.note_id(bytes[2]);
        }
        let r: DecRes = cu("decap", AssertUnwindSafe(|| self.d.decap(bytes))).ok();
        let memops = self.take_log();
        let mut returned: Option<Box<[u8]>> = None;
        let mut consumed = None;
        let jres = match &r {
            None => Obj::new().str("t", "panic").end(),
            Some(Ok((st, n))) => {
                consumed = Some(*n);
                match st {
                    DecapStatus::Padding => Obj::new().str("t", "padding").num("consumed", *n).end(),
                    DecapStatus::FragmentedPkt(m) => {
                        Obj::new().str("t", "fragmented").num("consumed", *n).raw("meta", &jmeta(m)).end()
                    }
                    DecapStatus::CompletedPkt(b, m) => {
                        let k = m.pdu_len().min(b.len());
                        Obj::new()
                            .str("t", "completed")
                            .num("consumed", *n)
                            .raw("meta", &jmeta(m))
                            .num("out_tag", b.len())
                            .bytes("pdu", &b[..k])
                            .end()
                    }
                }
            }
            Some(Err((e, n))) => {
                consumed = Some(*n);
                let back = match e {
                    DecapError::ErrorMemory(DecapMemoryError::StorageOverflow(b)) => b.len(),
                    DecapError::ErrorMemory(DecapMemoryError::BufferTooSmall(b)) => b.len(),
                    _ => 0,
                };
                Obj::new()
                    .str("t", "err")
                    .num("consumed", *n)
                    .str("e", &decap_err_name(e))
                    .num("out_tag", back)
                    .end()
            }
        };
        let mut o = Obj::new()
            .str("ev", "decap")
            .bytes("bytes", bytes)
            .raw("res", &jres)
            .raw("memops", &memops)
            .raw("mem", &self.jmem());
        for (k, v) in extra {
            o = o.raw(k, &v);
        }
        out.emit(&o.end());
        // hand the buffer to the driver
        let res2: DecRes = match r {
            None => None,
            Some(Ok((DecapStatus::CompletedPkt(b, m), n))) => {
                returned = Some(b);
                Some(Ok((DecapStatus::FragmentedPkt(m), n))) // status kind is not reused by drivers
            }
            Some(Ok(x)) => Some(Ok(x)),
            Some(Err((DecapError::ErrorMemory(DecapMemoryError::StorageOverflow(b)), n))) => {
                returned = Some(b);
                Some(Err((DecapError::ErrorSizeBuffer, n)))
            }
            Some(Err((DecapError::ErrorMemory(DecapMemoryError::BufferTooSmall(b)), n))) => {
                returned = Some(b);
                Some(Err((DecapError::ErrorSizeBuffer, n)))
            }
            Some(Err(x)) => Some(Err(x)),
        };
        RxOut { jres, res: res2, returned, consumed }
    }

    pub fn ev_peek(&mut self, out: &mut Out, bytes: &[u8], enc: bool) {
        let r = cu("peek", AssertUnwindSafe(|| self.d.get_label_or_frag_id(bytes))).ok();
        let jres = match &r {
            None => Obj::new().str("t", "panic").end(),
            Some(Ok(LabelorFragId::FragId(i))) => Obj::new().str("t", "fragid").num("id", *i as usize).end(),
            Some(Ok(LabelorFragId::Lbl(l))) => Obj::new().str("t", "label").raw("label", &jlabel(l)).end(),
            Some(Err(e)) => {
                let n = match e {
                    GetLabelorFragIdError::ErrLabelReuse => "ErrLabelReuse",
                    GetLabelorFragIdError::ErrSizeBuffer => "ErrSizeBuffer",
                    GetLabelorFragIdError::ErrHeaderRead => "ErrHeaderRead",
                    GetLabelorFragIdError::ErrorUnkownMandatoryHeader => "ErrorUnkownMandatoryHeader",
                };
                Obj::new().str("t", "err").str("e", n).end()
            }
        };
        out.emit(&Obj::new().str("ev", "peek").bytes("bytes", bytes).boolean("enc", enc).raw("res", &jres).end());
    }

    /// Final accounting: take everything out of the real memory.
    pub fn ev_drain(&mut self, out: &mut Out) {
        let mem = self.jmem();
        out.emit(&Obj::new().str("ev", "drain").raw("mem", &mem).end());
    }
}

/// description of a receiver for the `begin` event
pub fn jrxcfg(slots: usize, pdu_size: usize, mgr: &TableMgr) -> Obj {
    // over the alias-free memory every fragment id has a slot of its own
    Obj::new().num("slots", if mem_exact() { 256 } else { slots }).num("pdu_size", pdu_size).raw("mgr", &mgr.json())
}
