//! Tiny JSON writer, PRNG and output sink.  No external crates on purpose:
//! the harness must build offline from what is on disk.
use std::fs::File;
use std::io::{BufWriter, Write};

pub struct Rng(pub u64);
impl Rng {
    pub fn new(seed: u64) -> Self {
        Rng(seed.wrapping_mul(0x9E37_79B9_7F4A_7C15) ^ 0xD1B5_4A32_D192_ED03)
    }
    pub fn next(&mut self) -> u64 {
        // splitmix64
        self.0 = self.0.wrapping_add(0x9E37_79B9_7F4A_7C15);
        let mut z = self.0;
        z = (z ^ (z >> 30)).wrapping_mul(0xBF58_476D_1CE4_E5B9);
        z = (z ^ (z >> 27)).wrapping_mul(0x94D0_49BB_1331_11EB);
        z ^ (z >> 31)
    }
    pub fn below(&mut self, n: usize) -> usize {
        if n == 0 {
            0
        } else {
            (self.next() % n as u64) as usize
        }
    }
    pub fn range(&mut self, lo: usize, hi: usize) -> usize {
        lo + self.below(hi - lo + 1)
    }
    pub fn byte(&mut self) -> u8 {
        (self.next() & 0xFF) as u8
    }
    pub fn chance(&mut self, num: usize, den: usize) -> bool {
        self.below(den) < num
    }
    pub fn pick<'a, T>(&mut self, v: &'a [T]) -> &'a T {
        &v[self.below(v.len())]
    }
    pub fn bytes(&mut self, n: usize) -> Vec<u8> {
        (0..n).map(|_| self.byte()).collect()
    }
}

pub fn jstr(s: &str) -> String {
    let mut o = String::with_capacity(s.len() + 2);
    o.push('"');
    for c in s.chars() {
        match c {
            '"' => o.push_str("\\\""),
            '\\' => o.push_str("\\\\"),
            '\n' => o.push_str("\\n"),
            c if (c as u32) < 0x20 => o.push('?'),
            c => o.push(c),
        }
    }
    o.push('"');
    o
}

pub fn jbytes(b: &[u8]) -> String {
    let mut o = String::with_capacity(b.len() * 4 + 2);
    o.push('[');
    for (i, x) in b.iter().enumerate() {
        if i > 0 {
            o.push(',');
        }
        o.push_str(&x.to_string());
    }
    o.push(']');
    o
}

pub fn jnums(b: &[usize]) -> String {
    let mut o = String::from("[");
    for (i, x) in b.iter().enumerate() {
        if i > 0 {
            o.push(',');
        }
        o.push_str(&x.to_string());
    }
    o.push(']');
    o
}

pub fn jlist(items: &[String]) -> String {
    let mut o = String::from("[");
    for (i, x) in items.iter().enumerate() {
        if i > 0 {
            o.push(',');
        }
        o.push_str(x);
    }
    o.push(']');
    o
}

/// JSON object builder; values are already-rendered JSON fragments.
pub struct Obj {
    s: String,
    first: bool,
}
impl Obj {
    pub fn new() -> Self {
        Obj { s: String::from("{"), first: true }
    }
    pub fn raw(mut self, k: &str, v: &str) -> Self {
        if !self.first {
            self.s.push(',');
        }
        self.first = false;
        self.s.push_str(&jstr(k));
        self.s.push(':');
        self.s.push_str(v);
        self
    }
    pub fn str(self, k: &str, v: &str) -> Self {
        let v = jstr(v);
        self.raw(k, &v)
    }
    pub fn num(self, k: &str, v: usize) -> Self {
        self.raw(k, &v.to_string())
    }
    pub fn boolean(self, k: &str, v: bool) -> Self {
        self.raw(k, if v { "true" } else { "false" })
    }
    pub fn bytes(self, k: &str, v: &[u8]) -> Self {
        let v = jbytes(v);
        self.raw(k, &v)
    }
    pub fn end(mut self) -> String {
        self.s.push('}');
        self.s
    }
}

/// u32 as <<hi16, lo16>> (TLC integers are 32-bit signed)
pub fn j32(v: u32) -> String {
    format!("[{},{}]", v >> 16, v & 0xFFFF)
}

pub struct Out {
    w: BufWriter<File>,
    pw: BufWriter<File>,
    pub npdus: usize,
    pub events: usize,
    pub scn: usize,
    pub only: Option<usize>,
    pub active: bool,
}
impl Out {
    /// an output that discards everything (for twin objects)
    pub fn sink() -> Self {
        Out {
            w: BufWriter::new(File::create("/dev/null").unwrap()),
            pw: BufWriter::new(File::create("/dev/null").unwrap()),
            npdus: 0,
            events: 0,
            scn: 0,
            only: None,
            active: true,
        }
    }
    pub fn new(path: &str, only: Option<usize>) -> Self {
        let ppath = format!("{}.pdus", path);
        Out {
            w: BufWriter::new(File::create(path).expect("cannot create trace file")),
            pw: BufWriter::new(File::create(&ppath).expect("cannot create pdu file")),
            npdus: 0,
            events: 0,
            scn: 0,
            only,
            active: true,
        }
    }
    /// Start a new scenario (history).  Returns false when the scenario is
    /// filtered out by --only; drivers still execute it (cheap, keeps the RNG
    /// stream identical) but nothing is written.
    pub fn begin(&mut self, drv: &str, extra: Obj) -> bool {
        self.scn += 1;
        self.active = match self.only {
            Some(k) => k == self.scn,
            None => true,
        };
        let line = extra.str("ev", "begin").str("drv", drv).num("scn", self.scn).end();
        self.emit(&line);
        self.active
    }
    pub fn emit(&mut self, line: &str) {
        if self.active {
            self.w.write_all(line.as_bytes()).unwrap();
            self.w.write_all(b"\n").unwrap();
            self.events += 1;
        }
    }
    /// Register PDU content in the side file; events refer to it by 1-based index.
    /// (Always written, also for filtered scenarios, so that indices are stable.)
    pub fn reg_pdu(&mut self, bytes: &[u8]) -> usize {
        self.npdus += 1;
        let line = Obj::new().num("len", bytes.len()).bytes("bytes", bytes).end();
        self.pw.write_all(line.as_bytes()).unwrap();
        self.pw.write_all(b"\n").unwrap();
        self.npdus
    }
    pub fn finish(mut self) {
        self.pw.flush().unwrap();
        self.w.flush().unwrap();
    }
}
