//! Tiny JSON writer, PRNG and output sink.  No external crates on purpose:
//! the harness must build offline from what is on disk.
use std::fs::File;
use std::io::{BufWriter, Write};

pub struct Rng(pub u64);
impl Rng {
    pub fn new(seed: u64) -> Self {
        Rng(seed.wrapping_mul(0x9E37_79B9_7F4A_7C15) ^ 0xD1B5_4A32_D192_ED03)
    }
    pub fn next(&mut self) -> u64 {
        // splitmix64
        self.0 = self.0.wrapping_add(0x9E37_79B9_7F4A_7C15);
        let mut z = self.0;
        z = (z ^ (z >> 30)).wrapping_mul(0xBF58_476D_1CE4_E5B9);
        z = (z ^ (z >> 27)).wrapping_mul(0x94D0_49BB_1331_11EB);
        z ^ (z >> 31)
    }
    pub fn below(&mut self, n: usize) -> usize {
        if n == 0 {
            0
        } else {
            (self.next() % n as u64) as usize
        }
    }
    pub fn range(&mut self, lo: usize, hi: usize) -> usize {
        lo + self.below(hi - lo + 1)
    }
    pub fn byte(&mut self) -> u8 {
        (self.next() & 0xFF) as u8
    }
    pub fn chance(&mut self, num: usize, den: usize) -> bool {
        self.below(den) < num
    }
    pub fn pick<'a, T>(&mut self, v: &'a [T]) -> &'a T {
        &v[self.below(v.len())]
    }
    pub fn bytes(&mut self, n: usize) -> Vec<u8> {
        (0..n).map(|_| self.byte()).collect()
    }
}

pub fn jstr(s: &str) -> String {
    let mut o = String::with_capacity(s.len() + 2);
    o.push('"');
    for c in s.chars() {
        match c {
            '"' => o.push_str("\\\""),
            '\\' => o.push_str("\\\\"),
            '\n' => o.push_str("\\n"),
            c if (c as u32) < 0x20 => o.push('?'),
            c => o.push(c),
        }
    }
    o.push('"');
    o
}

pub fn jbytes(b: &[u8]) -> String {
    let mut o = String::with_capacity(b.len() * 4 + 2);
    o.push('[');
    for (i, x) in b.iter().enumerate() {
        if i > 0 {
            o.push(',');
        }
        o.push_str(&x.to_string());
    }
    o.push(']');
    o
}

pub fn jnums(b: &[usize]) -> String {
    let mut o = String::from("[");
    for (i, x) in b.iter().enumerate() {
        if i > 0 {
            o.push(',');
        }
        o.push_str(&x.to_string());
    }
    o.push(']');
    o
}

pub fn jlist(items: &[String]) -> String {
    let mut o = String::from("[");
    for (i, x) in items.iter().enumerate() {
        if i > 0 {
            o.push(',');
        }
        o.push_str(x);
    }
    o.push(']');
    o
}

/// JSON object builder; values are already-rendered JSON fragments.
pub struct Obj {
    s: String,
    first: bool,
}
impl Obj {
    pub fn new() -> Self {
        Obj { s: String::from("{"), first: true }
    }
    pub fn raw(mut self, k: &str, v: &str) -> Self {
        if !self.first {
            self.s.push(',');
        }
        self.first = false;
        self.s.push_str(&jstr(k));
        self.s.push(':');
        self.s.push_str(v);
        self
    }
    pub fn str(self, k: &str, v: &str) -> Self {
        let v = jstr(v);
        self.raw(k, &v)
    }
    pub fn num(self, k: &str, v: usize) -> Self {
        self.raw(k, &v.to_string())
    }
    pub fn boolean(self, k: &str, v: bool) -> Self {
        self.raw(k, if v { "true" } else { "false" })
    }
    pub fn bytes(self, k: &str, v: &[u8]) -> Self {
        let v = jbytes(v);
        self.raw(k, &v)
    }
    pub fn end(mut self) -> String {
        self.s.push('}');
        self.s
    }
}

/// u32 as <<hi16, lo16>> (TLC integers are 32-bit signed)
pub fn j32(v: u32) -> String {
    format!("[{},{}]", v >> 16, v & 0xFFFF)
}

pub struct Out {
    w: BufWriter<File>,
    pw: BufWriter<File>,
    pub npdus: usize,
    pub events: usize,
    pub scn: usize,
    pub only: Option<usize>,
    pub active: bool,
}
impl Out {
    /// an output that discards everything (for twin objects)
    pub fn sink() -> Self {
        Out {
            w: BufWriter::new(File::create("/dev/null").unwrap()),
            pw: BufWriter::new(File::create("/dev/null").unwrap()),
            npdus: 0,
            events: 0,
            scn: 0,
            only: None,
            active: true,
        }
    }
    pub fn new(path: &str, only: Option<usize>) -> Self {
        let ppath = format!("{}.pdus", path);
        Out {
            w: BufWriter::new(File::create(path).expect("cannot create trace file")),
            pw: BufWriter::new(File::create(&ppath).expect("cannot create pdu file")),
            npdus: 0,
            events: 0,
            scn: 0,
            only,
            active: true,
        }
    }
    /// Start a new scenario (history).  Returns false when the scenario is
    /// filtered out by --only; drivers still execute it (cheap, keeps the RNG
    /// stream identical) but nothing is written.
    pub fn begin(&mut self, drv: &str, extra: Obj) -> bool {
        self.scn += 1;
        WD_SCN.store(self.scn, std::sync::atomic::Ordering::Relaxed);
        self.active = match self.only {
            Some(k) => k == self.scn,
            None => true,
        };
        let line = extra.str("ev", "begin").str("drv", drv).num("scn", self.scn).end();
        self.emit(&line);
        self.active
    }
    pub fn emit(&mut self, line: &str) {
        if self.active {
            self.w.write_all(line.as_bytes()).unwrap();
            self.w.write_all(b"\n").unwrap();
            self.events += 1;
        }
    }
    /// Register PDU content in the side file; events refer to it by 1-based index.
    /// (Always written, also for filtered scenarios, so that indices are stable.)
    pub fn reg_pdu(&mut self, bytes: &[u8]) -> usize {
        self.npdus += 1;
        let line = Obj::new().num("len", bytes.len()).bytes("bytes", bytes).end();
        self.pw.write_all(line.as_bytes()).unwrap();
        self.pw.write_all(b"\n").unwrap();
        self.npdus
    }
    pub fn finish(mut self) {
        self.pw.flush().unwrap();
        self.w.flush().unwrap();
    }
}


// ------------------------------------------------------------------ watchdog
// Every call into the crate under test goes through `cu`: it records which kind of call is running, so that a
// call that never returns, or that aborts the process (stack overflow, allocation failure), is attributed to
// the code under test and not to the harness.
use std::sync::atomic::{AtomicU64, AtomicUsize, Ordering};
static WD_START: AtomicU64 = AtomicU64::new(0); // ms since process start, +1; 0 = no call running
static WD_CLASS: AtomicUsize = AtomicUsize::new(0);
pub static WD_SCN: AtomicUsize = AtomicUsize::new(0);
static WD_DIED_PATH: std::sync::OnceLock<Vec<u8>> = std::sync::OnceLock::new(); // NUL-terminated
static WD_T0: std::sync::OnceLock<std::time::Instant> = std::sync::OnceLock::new();
pub const WD_CLASSES: [&str; 12] =
    ["decap", "peek", "provision", "take", "encap", "encap_frag", "preview", "hdr", "extnew", "crc", "utils", "memops"];
pub const WD_LIMIT_MS: u64 = 30_000;

fn wd_now() -> u64 {
    WD_T0.get_or_init(std::time::Instant::now).elapsed().as_millis() as u64
}

pub fn cu<F: FnOnce() -> R + std::panic::UnwindSafe, R>(class: &'static str, f: F) -> std::thread::Result<R> {
    let ci = WD_CLASSES.iter().position(|c| *c == class).unwrap_or(0);
    WD_CLASS.store(ci, Ordering::Relaxed);
    WD_START.store(wd_now() + 1, Ordering::SeqCst);
    let r = std::panic::catch_unwind(f);
    WD_START.store(0, Ordering::SeqCst);
    r
}

extern "C" {
    fn signal(signum: i32, handler: usize) -> usize;
    fn open(path: *const u8, flags: i32, mode: u32) -> i32;
    fn write(fd: i32, buf: *const u8, n: usize) -> isize;
    fn _exit(code: i32) -> !;
}

fn put_num(buf: &mut [u8], mut at: usize, mut v: usize) -> usize {
    let mut tmp = [0u8; 20];
    let mut n = 0;
    loop {
        tmp[n] = b'0' + (v % 10) as u8;
        v /= 10;
        n += 1;
        if v == 0 {
            break;
        }
    }
    while n > 0 {
        n -= 1;
        buf[at] = tmp[n];
        at += 1;
    }
    at
}

/// SIGABRT (Rust aborts on stack overflow and on allocation failure): say where we were, exit with status 4.
/// Only async-signal-safe calls.
extern "C" fn on_abort(_sig: i32) {
    let mut buf = [0u8; 96];
    let mut at = 0;
    for b in b"{\"in_call\":" {
        buf[at] = *b;
        at += 1;
    }
    at = put_num(&mut buf, at, (WD_START.load(Ordering::SeqCst) != 0) as usize);
    for b in b",\"fn_idx\":" {
        buf[at] = *b;
        at += 1;
    }
    at = put_num(&mut buf, at, WD_CLASS.load(Ordering::Relaxed));
    for b in b",\"scn\":" {
        buf[at] = *b;
        at += 1;
    }
    at = put_num(&mut buf, at, WD_SCN.load(Ordering::Relaxed));
    buf[at] = b'}';
    at += 1;
    unsafe {
        if let Some(p) = WD_DIED_PATH.get() {
            let fd = open(p.as_ptr(), 577, 0o644); // O_WRONLY | O_CREAT | O_TRUNC
            if fd >= 0 {
                write(fd, buf.as_ptr(), at);
            }
        }
        _exit(4)
    }
}

/// started once by main: a call into the crate that runs longer than WD_LIMIT_MS is reported in `<trace>.hang`
/// (exit status 3); an abort is reported in `<trace>.died` (exit status 4)
pub fn start_watchdog(trace_path: &str) {
    let _ = wd_now();
    let mut p = format!("{}.died", trace_path).into_bytes();
    let _ = std::fs::remove_file(format!("{}.died", trace_path));
    p.push(0);
    let _ = WD_DIED_PATH.set(p);
    unsafe {
        signal(6, on_abort as usize); // SIGABRT
    }
    let hang = format!("{}.hang", trace_path);
    let _ = std::fs::remove_file(&hang);
    std::thread::spawn(move || loop {
        std::thread::sleep(std::time::Duration::from_millis(500));
        let st = WD_START.load(Ordering::SeqCst);
        if st != 0 && wd_now() + 1 > st + WD_LIMIT_MS {
            let _ = std::fs::write(
                &hang,
                format!(
                    "{{\"fn\":\"{}\",\"scn\":{},\"ms\":{}}}",
                    WD_CLASSES[WD_CLASS.load(Ordering::Relaxed)],
                    WD_SCN.load(Ordering::Relaxed),
                    wd_now() + 1 - st
                ),
            );
            std::process::exit(3);
        }
    });
}
