//! `tables`: full function tables and vector families
//!   hdr   - read_gse_header over all 65536 words, generate_gse_header over all triples (C14)
//!   extnew- Extension::new over all 65536 ids x data lengths 0..=10 (C13)
//!   crc   - DefaultCrc vector families (C12)
//!   utils - utils::{generate,parse} against packets from the encapsulator and synthetic ones (C20)
//!   memops- operation sequences on SimpleGseMemory through the public trait (C17)
use crate::craft::crc32_mpeg;
use crate::rx::*;
use crate::tx::*;
use crate::util::*;
use dvb_gse_rust::crc::{CrcCalculator, DefaultCrc};
use dvb_gse_rust::gse_decap::{read_gse_header, DecapContext, DecapMemoryError, GseDecapMemory, SimpleGseMemory};
use dvb_gse_rust::gse_encap::{generate_gse_header, EncapStatus, Encapsulator};
use dvb_gse_rust::header_extension::{Extension, NewExtensionError};
use dvb_gse_rust::label::{Label, LabelType};
use dvb_gse_rust::utils::{GseCompletePacket, GseEndFragPacket, GseFirstFragPacket, GseIntermediatePacket, Serialisable};
use std::panic::AssertUnwindSafe;

fn kind_name(dbg: &str) -> &'static str {
    match dbg {
        "CompletePkt" => "complete",
        "FirstFragPkt" => "first",
        "IntermediateFragPkt" => "inter",
        "EndFragPkt" => "end",
        _ => "unknown",
    }
}
fn lt_name(l: &LabelType) -> &'static str {
    match l {
        LabelType::SixBytesLabel => "six",
        LabelType::ThreeBytesLabel => "three",
        LabelType::Broadcast => "bc",
        LabelType::ReUse => "ru",
    }
}

// --------------------------------------------------------------------- C14
pub fn hdr(out: &mut Out) {
    out.begin("tables", Obj::new().str("what", "hdr"));
    // decode table, run-compressed losslessly: a new run starts whenever the
    // observation is not "same class, length + 1"
    let obs = |w: u32| -> (String, usize) {
        match cu("hdr", || read_gse_header(w as u16)) {
            Err(_) => ("panic".to_string(), 0),
            Ok(None) => ("none".to_string(), 0),
            Ok(Some((len, k, l))) => (format!("{}/{}", kind_name(&format!("{:?}", k)), lt_name(&l)), len),
        }
    };
    let mut start = 0u32;
    let (mut cls, mut len0) = obs(0);
    let mut prev_len = len0;
    for w in 1..=65536u32 {
        let (c, l) = if w <= 65535 { obs(w) } else { ("end".to_string(), 0) };
        let cont = c == cls && (c == "none" || c == "panic" || l == prev_len + 1);
        if !cont {
            let parts: Vec<&str> = cls.split('/').collect();
            out.emit(
                &Obj::new()
                    .str("ev", "hdr_dec_run")
                    .num("from", start as usize)
                    .num("to", (w - 1) as usize)
                    .str("cls", parts[0])
                    .str("lt", if parts.len() > 1 { parts[1] } else { "-" })
                    .num("len0", len0)
                    .end(),
            );
            start = w;
            cls = c;
            len0 = l;
        }
        prev_len = l;
    }
    // encode table: the PktType values are obtained through read_gse_header (its module is private)
    let lts = [(LabelType::SixBytesLabel, "six"), (LabelType::ThreeBytesLabel, "three"), (LabelType::Broadcast, "bc"), (LabelType::ReUse, "ru")];
    for (dbg, kname) in [("CompletePkt", "complete"), ("FirstFragPkt", "first"), ("IntermediateFragPkt", "inter"), ("EndFragPkt", "end")] {
        // any word that decodes to this kind yields the PktType value (never unwrap a particular word:
        // a wrong decoder is data, not a reason for the harness to die)
        let found = (0..=65535u32).find_map(|w| match cu("hdr", || read_gse_header(w as u16)) {
            Ok(Some((_, k, _))) if format!("{:?}", k) == dbg => Some(k),
            _ => None,
        });
        let k = match found {
            Some(k) => k,
            None => {
                out.emit(&Obj::new().str("ev", "hdr_enc_run").str("kind", kname).str("lt", "six").num("len_from", 0).num("len_to", 0).num("w0", 65536).end());
                continue;
            }
        };
        for (lt, lname) in &lts {
            let mut run_from = 0usize;
            // a panic of the encoder is data: it shows as a word no header can be (100000)
            let gen = |len: u16| -> usize {
                match cu("hdr", AssertUnwindSafe(|| generate_gse_header(&k, lt, len))) {
                    Ok(w) => w as usize,
                    Err(_) => 100_000,
                }
            };
            let mut w0 = gen(0);
            let mut prev = w0;
            for len in 1..=4096usize {
                let w = if len <= 4095 { gen(len as u16) } else { usize::MAX };
                if w != prev + 1 {
                    out.emit(
                        &Obj::new()
                            .str("ev", "hdr_enc_run")
                            .str("kind", kname)
                            .str("lt", lname)
                            .num("len_from", run_from)
                            .num("len_to", len - 1)
                            .num("w0", w0)
                            .end(),
                    );
                    run_from = len;
                    w0 = w;
                }
                prev = w;
            }
        }
    }
}

// --------------------------------------------------------------------- C13
pub fn extnew(out: &mut Out) {
    out.begin("tables", Obj::new().str("what", "extnew"));
    for dlen in 0..=10usize {
        let data: Vec<u8> = (0..dlen).map(|i| (i * 17 + 3) as u8).collect();
        let obs = |id: u32| -> String {
            match cu("extnew", || Extension::new(id as u16, &data)) {
                Err(_) => "panic".into(),
                Ok(Err(NewExtensionError::IdAndVecSizeNotMatchingError)) => "size".into(),
                Ok(Err(NewExtensionError::IncorrectExtensionId)) => "id".into(),
                Ok(Ok(e)) => {
                    let echoed = jextensions(std::slice::from_ref(&e));
                    let want = jexts(&[ExtSpec { id: id as u16, data: data.clone() }]);
                    if echoed == want && e.len() == 2 + dlen {
                        "ok".into()
                    } else {
                        "ok_but_differs".into()
                    }
                }
            }
        };
        let mut start = 0u32;
        let mut cur = obs(0);
        for id in 1..=65536u32 {
            let o = if id <= 65535 { obs(id) } else { "end".into() };
            if o != cur {
                out.emit(
                    &Obj::new()
                        .str("ev", "ext_new_run")
                        .num("dlen", dlen)
                        .num("from", start as usize)
                        .num("to", (id - 1) as usize)
                        .str("res", &cur)
                        .end(),
                );
                start = id;
                cur = o;
            }
        }
    }
}

// --------------------------------------------------------------------- C12
fn crc_event(out: &mut Out, tl: u16, ptype: u16, label: &[u8], pdu: &[u8]) {
    let r = cu("crc", || DefaultCrc {}.calculate_crc32(pdu, ptype, tl, label));
    let o = Obj::new().str("ev", "crc_vec").num("tl", tl as usize).num("ptype", ptype as usize).bytes("label", label);
    let o = if pdu.len() <= 80 {
        o.bytes("pdu", pdu).num("pdu_ref", 0)
    } else {
        let id = out.reg_pdu(pdu);
        o.raw("pdu", "[]").num("pdu_ref", id)
    };
    let line = match r {
        Ok(v) => o.boolean("panic", false).raw("res", &j32(v)).end(),
        Err(_) => o.boolean("panic", true).raw("res", "[0,0]").end(),
    };
    out.emit(&line);
}

pub fn crc(out: &mut Out, seed: u64, thorough: bool) {
    let mut rng = Rng::new(seed ^ 0xC2C);
    out.begin("tables", Obj::new().str("what", "crc"));
    // the check string as PDU, with empty header fields folded in
    crc_event(out, 0, 0, &[], &[]);
    crc_event(out, 0x3132, 0x3334, &[0x35, 0x36, 0x37], &[0x38, 0x39]); // "123456789"
    // every byte value at every field position, with a prefix that varies the register
    // (so that every table index occurs at every position)
    let stride = if thorough { 1 } else { 5 };
    for pos in 0..14usize {
        let mut v = 0usize;
        while v < 256 {
            let mut msg: Vec<u8> = rng.bytes(14);
            msg[pos] = v as u8;
            let tl = u16::from_be_bytes([msg[0], msg[1]]);
            let pt = u16::from_be_bytes([msg[2], msg[3]]);
            let ll = [0usize, 3, 6][(pos + v) % 3];
            crc_event(out, tl, pt, &msg[4..4 + ll], &msg[4 + ll..]);
            v += stride;
        }
    }
    // all-zero / all-one inputs, PDU lengths 0..64
    for n in 0..=64usize {
        crc_event(out, 0, 0, &[], &vec![0u8; n]);
        crc_event(out, 0xFFFF, 0xFFFF, &[0xFF; 6], &vec![0xFFu8; n]);
        let p = rng.bytes(n);
        crc_event(out, (n + 2) as u16, 0x0800, &[], &p);
    }
    // the two long ones
    let p = rng.bytes(4095);
    crc_event(out, 4097, 0x0800, &[1, 2, 3], &p);
    let p = rng.bytes(65535);
    crc_event(out, 0xFFFF, 0x86DD, &[1, 2, 3, 4, 5, 6], &p);
    let nrand = if thorough { 2000 } else { 300 };
    for _ in 0..nrand {
        let n = rng.range(0, 40);
        let ll = [0usize, 3, 6][rng.below(3)];
        let l = rng.bytes(ll);
        let p = rng.bytes(n);
        crc_event(out, rng.next() as u16, rng.next() as u16, &l, &p);
    }
}

// --------------------------------------------------------------------- C20
fn jdesc(kind: &str, gse_len: usize, fragid: usize, tl: usize, ptype: usize, label: &Label, pdu: &[u8], crc: u32) -> String {
    Obj::new()
        .str("kind", kind)
        .num("gse_len", gse_len)
        .num("fragid", fragid)
        .num("tl", tl)
        .num("ptype", ptype)
        .raw("label", &jlabel(label))
        .bytes("pdu", pdu)
        .raw("crc", &j32(crc))
        .end()
}

/// parse `bytes` with the utils struct of its kind, log the description it returns and
/// what generate() produces from that description
fn utils_roundtrip(out: &mut Out, bytes: &[u8], src: &str) {
    if bytes.len() < 2 {
        return;
    }
    let kind = bytes[0] >> 6;
    let n = bytes.len();
    let r = cu("utils", AssertUnwindSafe(|| -> Option<(String, Vec<u8>)> {
        let mut regen = vec![0xAAu8; n + 6]; // 6 canary bytes beyond the packet
        let d = match kind {
            3 => {
                let p = GseCompletePacket::parse(bytes).ok()?;
                p.generate(&mut regen);
                let dbg = format!("{:?}", p);
                dbg
            }
            2 => {
                let p = GseFirstFragPacket::parse(bytes).ok()?;
                p.generate(&mut regen);
                format!("{:?}", p)
            }
            0 => {
                let p = GseIntermediatePacket::parse(bytes).ok()?;
                p.generate(&mut regen);
                format!("{:?}", p)
            }
            _ => {
                let p = GseEndFragPacket::parse(bytes).ok()?;
                p.generate(&mut regen);
                format!("{:?}", p)
            }
        };
        Some((d, regen))
    }));
    let (t, dbg, regen) = match r {
        Err(_) => ("panic", String::new(), vec![]),
        Ok(None) => ("err", String::new(), vec![]),
        // the description is read from the derived Debug output; if that is ever not recognisable the event says
        // so ("opaque") and only the byte-level round trip is judged
        Ok(Some((d, g))) => (if d.contains("gse_len:") && d.contains("pdu:") { "ok" } else { "opaque" }, d, g),
    };
    let tail_ok = regen.len() < n || regen[n..].iter().all(|b| *b == 0xAA);
    let regen: Vec<u8> = regen.into_iter().take(n).collect();
    out.emit(
        &Obj::new()
            .str("ev", "utils_rt")
            .str("src", src)
            .bytes("bytes", bytes)
            .str("t", t)
            .raw("desc", &parse_debug_desc(&dbg))
            .bytes("regen", &regen)
            .boolean("tail_ok", tail_ok)
            .end(),
    );
}

/// The utils structs have private fields and no getters; their derived Debug
/// output is the only public projection.  This turns e.g.
/// `GseFirstFragPacket { gse_len: 10, frag_id: 1, total_length: 30, protocol_type: 2048, label: ThreeBytesLabel([1, 2, 3]), pdu: [1, 2], .. }`
/// into JSON.  Purely syntactic.
fn parse_debug_desc(d: &str) -> String {
    fn num_after(d: &str, key: &str) -> usize {
        match d.find(key) {
            None => 0,
            Some(i) => d[i + key.len()..].trim_start().chars().take_while(|c| c.is_ascii_digit()).collect::<String>().parse().unwrap_or(0),
        }
    }
    fn list_after(d: &str, key: &str) -> Vec<u8> {
        match d.find(key) {
            None => vec![],
            Some(i) => {
                let rest = &d[i + key.len()..];
                let a = rest.find('[').unwrap_or(0);
                let b = rest.find(']').unwrap_or(0);
                if b <= a {
                    return vec![];
                }
                rest[a + 1..b].split(',').filter_map(|x| x.trim().parse().ok()).collect()
            }
        }
    }
    let label = if d.contains("label: SixBytesLabel") {
        Obj::new().str("k", "six").bytes("b", &list_after(d, "label: SixBytesLabel")).end()
    } else if d.contains("label: ThreeBytesLabel") {
        Obj::new().str("k", "three").bytes("b", &list_after(d, "label: ThreeBytesLabel")).end()
    } else if d.contains("label: Broadcast") {
        Obj::new().str("k", "bc").raw("b", "[]").end()
    } else {
        Obj::new().str("k", "ru").raw("b", "[]").end()
    };
    let crc = num_after(d, "crc:") as u32;
    Obj::new()
        .num("gse_len", num_after(d, "gse_len:"))
        .num("fragid", num_after(d, "frag_id:"))
        .num("tl", num_after(d, "total_length:"))
        .num("ptype", num_after(d, "protocol_type:"))
        .raw("label", &label)
        .bytes("pdu", &list_after(d, "pdu:"))
        .raw("crc", &j32(crc))
        .end()
}

pub fn utils(out: &mut Out, seed: u64, thorough: bool) {
    let mut rng = Rng::new(seed ^ 0x0711);
    let mgr = TableMgr { known: vec![] };
    out.begin("tables", Obj::new().str("what", "utils").boolean("lock", false).raw("rx", &jrxcfg(2, 4100, &mgr).end()));
    let mut rx: Rx<DefaultCrc> = Rx::new(2, 4100, DefaultCrc {}, mgr);
    rx.project = true;
    rx.ev_provision(out, 4100);
    rx.ev_provision(out, 4101);
    let mut enc = Encapsulator::new(DefaultCrc {});
    enc.disable_re_use_label();
    ev_cfg(out, &mut enc, Cfg::Disable);
    let n = if thorough { 2500 } else { 60 };
    let labels = [Label::SixBytesLabel([1, 2, 3, 4, 5, 6]), Label::ThreeBytesLabel([9, 8, 7]), Label::Broadcast];
    // (a) packets emitted by the encapsulator: parse -> description -> generate must reproduce them
    for i in 0..n {
        let plen = *rng.pick(&[0usize, 1, 2, 26, 100, 1000, 4000]);
        let plen = if i % 4 == 0 { rng.range(0, 4000) } else { plen };
        let pdu = Pdu::random(out, plen, &mut rng);
        let label = labels[i % 3];
        let ptype = *rng.pick(&[0x0600u16, 0x0800, 0x86DD, 0xFFFF]);
        let fragid = *rng.pick(&[0u8, 1, 127, 255]);
        let b = if i % 2 == 0 { 4097 } else { rng.range(13, plen.max(14) + 13) };
        let t = ev_encap(out, &mut enc, &pdu, fragid, label, ptype, b, None, None);
        let mut ctx = match &t.res {
            Some(Ok(EncapStatus::CompletedPkt(_))) => {
                utils_roundtrip(out, &t.wire, "encap");
                let o = rx.ev_decap(out, &t.wire, vec![]);
                if let Some(bx) = o.returned {
                    rx.ev_provision_buf(out, bx);
                }
                None
            }
            Some(Ok(EncapStatus::FragmentedPkt(_, c))) => {
                utils_roundtrip(out, &t.wire, "encap");
                let _ = rx.ev_decap(out, &t.wire, vec![]);
                Some(*c)
            }
            _ => None,
        };
        let mut guard = 0;
        while let Some(c) = ctx {
            guard += 1;
            if guard > 30 {
                break;
            }
            let b = rng.range(8, 4097);
            let t = ev_encap_frag(out, &enc, &pdu, &c, b);
            match &t.res {
                Some(Ok(EncapStatus::FragmentedPkt(_, c2))) => {
                    utils_roundtrip(out, &t.wire, "encap");
                    let _ = rx.ev_decap(out, &t.wire, vec![]);
                    ctx = Some(*c2);
                }
                Some(Ok(EncapStatus::CompletedPkt(_))) => {
                    utils_roundtrip(out, &t.wire, "encap");
                    let o = rx.ev_decap(out, &t.wire, vec![]);
                    if let Some(bx) = o.returned {
                        rx.ev_provision_buf(out, bx);
                    }
                    ctx = None;
                }
                _ => ctx = None,
            }
        }
    }
    // (b) synthetic descriptions: generate -> bytes, parse(bytes) -> description
    for i in 0..n * 2 {
        let plen = *rng.pick(&[0usize, 1, 2, 26, 4000]);
        let pdu = rng.bytes(plen);
        let label = labels[i % 3];
        let ptype = (0x0600 + rng.below(0xFA00)) as u16;
        let fragid = *rng.pick(&[0u8, 1, 127, 255]);
        // total length: any 16-bit value, the smallest ones and the largest in turn
        let tl = match i % 12 { 1 => (i / 12 % 9) as u16, 5 => 0xFFFF - (i / 12 % 3) as u16, _ => rng.next() as u16 };
        let crc = rng.next() as u32;
        let kind = i % 4;
        let r = cu("utils", AssertUnwindSafe(|| -> (String, Vec<u8>) {
            match kind {
                0 => {
                    let gl = 2 + label.len() + plen;
                    let mut b = vec![0x55u8; gl + 2 + 6];
                    GseCompletePacket::new(gl as u16, ptype, label, &pdu).generate(&mut b);
                    (jdesc("complete", gl, 0, 0, ptype as usize, &label, &pdu, 0), b)
                }
                1 => {
                    let gl = 5 + label.len() + plen;
                    let mut b = vec![0x55u8; gl + 2 + 6];
                    GseFirstFragPacket::new(gl as u16, fragid, tl, ptype, label, &pdu).generate(&mut b);
                    (jdesc("first", gl, fragid as usize, tl as usize, ptype as usize, &label, &pdu, 0), b)
                }
                2 => {
                    let gl = 1 + plen;
                    let mut b = vec![0x55u8; gl + 2 + 6];
                    GseIntermediatePacket::new(gl as u16, fragid, &pdu).generate(&mut b);
                    (jdesc("inter", gl, fragid as usize, 0, 0, &Label::ReUse, &pdu, 0), b)
                }
                _ => {
                    let gl = 5 + plen;
                    let mut b = vec![0x55u8; gl + 2 + 6];
                    GseEndFragPacket::new(gl as u16, fragid, &pdu, crc).generate(&mut b);
                    (jdesc("end", gl, fragid as usize, 0, 0, &Label::ReUse, &pdu, crc), b)
                }
            }
        }));
        match r {
            Ok((desc, mut bytes)) => {
                // the last 6 bytes of the buffer lie beyond the packet: generate must leave them alone
                let n = bytes.len() - 6;
                let tail_ok = bytes[n..].iter().all(|b| *b == 0x55);
                bytes.truncate(n);
                out.emit(&Obj::new().str("ev", "utils_gen").raw("desc", &desc).bytes("bytes", &bytes).boolean("panic", false).boolean("tail_ok", tail_ok).end());
                if !(kind == 2 && plen == 0) {
                    utils_roundtrip(out, &bytes, "synthetic");
                }
                if kind == 0 {
                    // the decapsulator accepts it with the same field values (judged by the decap clauses)
                    rx.ev_reset(out);
                    let o = rx.ev_decap(out, &bytes, vec![("utl", "true".to_string())]);
                    if let Some(bx) = o.returned {
                        rx.ev_provision_buf(out, bx);
                    }
                }
                if kind == 1 {
                    // a first fragment built with the utils struct whose total length is consistent (the fragment
                    // carries the whole PDU, or all but a few bytes), then the CRC-bearing end packet
                    let rest = i % 3; // bytes left for the end packet
                    let tl2 = (2 + label.len() + plen + rest) as u16;
                    let gl = 5 + label.len() + plen;
                    let mut b = vec![0x55u8; gl + 2];
                    let gen = cu("utils", AssertUnwindSafe(|| GseFirstFragPacket::new(gl as u16, fragid, tl2, ptype, label, &pdu).generate(&mut b)));
                    if gen.is_ok() {
                        // what the decapsulator accepts, the utils struct must read back
                        utils_roundtrip(out, &b, "consistent_first");
                        rx.ev_reset(out);
                        rx.note_id(fragid);
                        let _ = rx.ev_decap(out, &b, vec![("utl", "true".to_string())]);
                        let tail: Vec<u8> = (0..rest).map(|x| x as u8 + 1).collect();
                        let mut whole = pdu.clone();
                        whole.extend(&tail);
                        let crc = crc32_mpeg(&[&tl2.to_be_bytes(), &ptype.to_be_bytes(), label.get_bytes(), &whole]);
                        let gle = 5 + rest;
                        let mut e = vec![0x55u8; gle + 2];
                        if cu("utils", AssertUnwindSafe(|| GseEndFragPacket::new(gle as u16, fragid, &tail, crc).generate(&mut e))).is_ok() {
                            utils_roundtrip(out, &e, "consistent_end");
                            let o = rx.ev_decap(out, &e, vec![("utl", "true".to_string())]);
                            if let Some(bx) = o.returned {
                                rx.ev_provision_buf(out, bx);
                            }
                        }
                    }
                }
            }
            Err(_) => {
                out.emit(&Obj::new().str("ev", "utils_gen").raw("desc", "{}").raw("bytes", "[]").boolean("panic", true).end());
            }
        }
    }
    rx.ev_drain(out);
}

// --------------------------------------------------------------------- C17
fn mk_ctx(id: u8, serial: u16) -> DecapContext {
    DecapContext::new(Label::ThreeBytesLabel([1, 2, 3]), 0x0800, id, 1000, serial, false, vec![])
}

fn pattern_ok(b: &[u8]) -> bool {
    let t = b.len() as u8;
    b.iter().enumerate().all(|(i, x)| *x == t.wrapping_add((i as u8).wrapping_mul(3)))
}
fn pattern(len: usize) -> Box<[u8]> {
    let t = len as u8;
    (0..len).map(|i| t.wrapping_add((i as u8).wrapping_mul(3))).collect::<Vec<u8>>().into_boxed_slice()
}

pub fn memops(out: &mut Out, seed: u64, thorough: bool, scn: Option<&str>) {
    let mut rng = Rng::new(seed ^ 0x3E30);
    // scripted sequences (generated by TLC from MC_Memory) or random ones
    let scripts: Vec<(usize, Vec<String>)> = match scn {
        Some(path) => std::fs::read_to_string(path)
            .unwrap_or_default()
            .lines()
            .filter_map(|l| {
                let mut it = l.split_whitespace();
                let slots: usize = it.next()?.parse().ok()?;
                Some((slots, it.map(|s| s.to_string()).collect()))
            })
            .collect(),
        None => vec![],
    };
    let nrand = if scn.is_some() { 0 } else if thorough { 3000 } else { 400 };
    let total = scripts.len() + nrand;
    for si in 0..total {
        let (slots, script): (usize, Option<&Vec<String>>) =
            if si < scripts.len() {
                (scripts[si].0, Some(&scripts[si].1))
            } else {
                // mostly 1..4 slots; one run in eight with a slot count around the size of the fragment-id space
                (match si % 32 { 7 => 254, 15 => 255, 23 => 256, 31 => 300, k => 1 + k % 4 }, None)
            };
        // configured PDU size: small as a rule; a few runs around 65536 (a size kept in 16 bits would wrap)
        let pdu_size = if script.is_none() { match si % 64 { 5 => 65535, 21 => 65536, 37 => 70000, 53 => 131072 + 20, _ => 16 } } else { 16 };
        // measured capacity: provisions accepted by a fresh scratch memory
        let mut scratch = SimpleGseMemory::new(slots, pdu_size, 0, 0);
        let mut cap = 0;
        while cap < 400 && scratch.provision_storage(vec![0u8; pdu_size + 30].into_boxed_slice()).is_ok() {
            cap += 1;
        }
        out.begin(
            "memops",
            Obj::new().str("what", if script.is_some() { "tlc" } else { "random" }).raw(
                "mem",
                &Obj::new().num("slots", slots).num("pdu_size", pdu_size).num("cap", cap).end(),
            ),
        );
        let mut mem = SimpleGseMemory::new(slots, pdu_size, 0, 0);
        let mut ids: Vec<u8> = vec![0, 1, 2, 3, (slots as u8), 255];
        ids.sort();
        ids.dedup();
        let mut held: Vec<(Option<DecapContext>, Box<[u8]>)> = vec![]; // caller-owned
        let mut next_len = pdu_size; // unique lengths; below/at/above the configured size
        let mut serial = 0u16;
        let mut big_count = 0usize;
        let nops = match script {
            Some(s) => s.len(),
            None => rng.range(5, 50),
        };
        for k in 0..nops {
            // choose an operation
            let (op, arg): (String, usize) = match script {
                Some(s) => {
                    let mut p = s[k].split(':');
                    (p.next().unwrap_or("").to_string(), p.next().and_then(|x| x.parse().ok()).unwrap_or(0))
                }
                None => match rng.below(10) {
                    0 => ("provision".into(), rng.below(3)),
                    1 => if rng.chance(1, 3) { ("provision_big".into(), rng.below(4)) } else { ("provision".into(), rng.below(3)) },
                    2 => ("provision_small".into(), 0),
                    3 => ("new_pdu".into(), 0),
                    4 | 5 => ("new_frag".into(), *rng.pick(&ids) as usize),
                    6 | 7 => ("take_frag".into(), *rng.pick(&ids) as usize),
                    8 => ("save_frag".into(), rng.below(4) + 8 * (*rng.pick(&ids) as usize % 4)),
                    _ => ("reprovision".into(), rng.below(4)),
                },
            };
            let mut o = Obj::new().str("ev", "mem_op").str("op", &op).num("arg", arg);
            let mut content_ok = true;
            match op.as_str() {
                "provision" | "provision_small" | "provision_big" | "reprovision" => {
                    let buf: Box<[u8]> = if op == "reprovision" {
                        if held.is_empty() {
                            continue;
                        }
                        held.remove(arg % held.len()).1
                    } else if op == "provision_big" {
                        // lengths at and just above multiples of 64 KiB (unique per scenario)
                        big_count += 1;
                        pattern([65536usize, 65537, 65536 + pdu_size - 1, 131072, 131073][arg % 5] + 8 * big_count)
                    } else if op == "provision_small" && pdu_size > 60000 {
                        // below a large configured size: just below, far below, around what a 16-bit copy of the size would be
                        let c = [pdu_size - 1, pdu_size - 1000, 65535, (pdu_size & 0xFFFF) + 1, pdu_size & 0xFFFF, 100, pdu_size / 2];
                        pattern(c[k % c.len()].saturating_sub(k / c.len()).clamp(1, pdu_size - 1))
                    } else if op == "provision_small" {
                        pattern(1 + (k % (pdu_size - 1)))
                    } else {
                        next_len += 1 + arg;
                        pattern(next_len - 1)
                    };
                    let tag = buf.len();
                    let r = cu("memops", AssertUnwindSafe(|| mem.provision_storage(buf)));
                    let (res, back) = match r {
                        Err(_) => ("panic", 0),
                        Ok(Ok(())) => ("ok", 0),
                        Ok(Err(DecapMemoryError::StorageOverflow(b))) => {
                            let l = b.len();
                            content_ok &= pattern_ok(&b);
                            held.push((None, b));
                            ("overflow", l)
                        }
                        Ok(Err(DecapMemoryError::BufferTooSmall(b))) => {
                            let l = b.len();
                            content_ok &= pattern_ok(&b);
                            // a too-small buffer is simply dropped by the caller
                            ("toosmall", l)
                        }
                        Ok(Err(_)) => ("other", 0),
                    };
                    o = o.str("opk", "provision").num("tag", tag).str("res", res).num("rtag", back);
                }
                "new_pdu" => {
                    let r = cu("memops", AssertUnwindSafe(|| mem.new_pdu()));
                    let (res, t) = match r {
                        Err(_) => ("panic", 0),
                        Ok(Ok(b)) => {
                            let l = b.len();
                            content_ok &= pattern_ok(&b);
                            held.push((None, b));
                            ("ok", l)
                        }
                        Ok(Err(DecapMemoryError::StorageUnderflow)) => ("underflow", 0),
                        Ok(Err(_)) => ("other", 0),
                    };
                    o = o.str("opk", "new_pdu").str("res", res).num("rtag", t);
                }
                "new_frag" => {
                    serial += 1;
                    let ctx = mk_ctx(arg as u8, serial);
                    let r = cu("memops", AssertUnwindSafe(|| mem.new_frag(ctx)));
                    let (res, t, rs) = match r {
                        Err(_) => ("panic", 0, 0),
                        Ok(Ok((c, b))) => {
                            let l = b.len();
                            let s = c.pdu_len as usize;
                            let same = c.frag_id as usize == arg;
                            content_ok &= pattern_ok(&b);
                            held.push((Some(c), b));
                            (if same { "ok" } else { "ok_wrong_ctx" }, l, s)
                        }
                        Ok(Err(DecapMemoryError::StorageUnderflow)) => ("underflow", 0, 0),
                        Ok(Err(_)) => ("other", 0, 0),
                    };
                    o = o.str("opk", "new_frag").num("id", arg).num("serial", serial as usize).str("res", res).num("rtag", t).num("rserial", rs);
                }
                "take_frag" => {
                    let r = cu("memops", AssertUnwindSafe(|| mem.take_frag(arg as u8)));
                    let (res, t, rs, rid) = match r {
                        Err(_) => ("panic", 0, 0, 0),
                        Ok(Ok((c, b))) => {
                            let l = b.len();
                            let s = c.pdu_len as usize;
                            let i = c.frag_id as usize;
                            content_ok &= pattern_ok(&b);
                            held.push((Some(c), b));
                            ("ok", l, s, i)
                        }
                        Ok(Err(DecapMemoryError::UndefinedId)) => ("undefined", 0, 0, 0),
                        Ok(Err(_)) => ("other", 0, 0, 0),
                    };
                    o = o.str("opk", "take_frag").num("id", arg).str("res", res).num("rtag", t).num("rserial", rs).num("rid", rid);
                }
                "save_frag" => {
                    // save a held (context, buffer) pair; a buffer held without context gets a fresh one
                    if held.is_empty() {
                        continue;
                    }
                    // arg = index of the held pair + 8 * frag id for a fresh context
                    let (c, b) = held.remove((arg % 8) % held.len());
                    let c = match c {
                        Some(c) => c,
                        None => {
                            serial += 1;
                            mk_ctx((arg / 8) as u8, serial)
                        }
                    };
                    let (id, s, tag) = (c.frag_id as usize, c.pdu_len as usize, b.len());
                    let r = cu("memops", AssertUnwindSafe(|| mem.save_frag((c, b))));
                    let res = match r {
                        Err(_) => "panic",
                        Ok(Ok(())) => "ok",
                        Ok(Err(DecapMemoryError::MemoryCorrupted)) => "refused",
                        Ok(Err(_)) => "other",
                    };
                    o = o.str("opk", "save_frag").num("id", id).num("serial", s).num("tag", tag).str("res", res);
                }
                _ => continue,
            }
            let line = o.boolean("content_ok", content_ok).raw("mem", &project_simple(&mem, &ids)).end();
            out.emit(&line);
        }
    }
}
